package client_test

// Injected with `go test -overlay` as /repo/client/zz_verif_c15_test.go (never written into /repo).
//
// BOUNDED leg of C15 (an exhaustive enumeration over a stated finite family, NOT a proof):
// "Export followed by import reproduces the tree".
//
// For every tree of the family (exact statement: the `rule` string of the result) the harness
//   1. builds the tree below a fresh group node P1 (child of the root of the test server) with
//      client.SendNode / SendNodePoints / SendEdgePoint(s); one extra child is created and then
//      deleted (tombstone edge point) and must not be exported;
//   2. reads it back recursively (client.GetNodes(nc, parent, "all", "", false)) = ORIGINAL, and
//      checks that the store holds what was built (classes "precondition: ...");
//   3. exports it with client.ExportNodes(nc, top);
//   4. leg (a): imports the YAML below a second fresh group P2 with preserveIDs=false;
//      leg (c): imports the same YAML with preserveIDs=true on a SECOND instance
//      (server.TestServer("2")) below a group node that has P1's id;
//      leg (b): deletes the original (client.DeleteNode(top, P1)) and imports the same YAML below
//      P1 with preserveIDs=true ("restore on the same instance");
//   5. reads the imported subtree back recursively and compares it with ORIGINAL.
// A pure YAML leg (no server) marshals / unmarshals a client.SiotExport holding every corpus
// string, every string of length <= 2 (thorough: 3) over a 32-symbol alphabet and a list of
// values, with the yaml package that client/node.go imports.
//
// The family is factorised (string sweep / value sweep / mixed sweep / shape-plain / shape-nasty)
// because a single scalar that the YAML library cannot read back makes the whole import fail
// and would otherwise mask every other comparison.
//
// Servers: quick uses ONE server.TestServer() (plus ONE second instance for leg (c)) for the
// whole run. Thorough replaces the pair by a fresh pair every 150 trees (one pair at a time):
// every read of the store scans all points ever written (no index on node_points.node_id), so a
// single database makes the run quadratic.
//
// The yaml import below must be the package client/node.go imports. For a tree whose client/node.go
// uses gopkg.in/yaml.v3 (see c15_proposed_fix.diff) inject
//   sed 's#github.com/goccy/go-yaml#gopkg.in/yaml.v3#' c15_export_import_test.go
// (only yaml.Marshal / yaml.Unmarshal are used, both packages have them).
//
// Env: VERIF_TIER = quick (default) | thorough, VERIF_SEED (default 1, selects the quick sample of
// depth-3 shapes), VERIF_C15_OUT = file receiving the JSON result, VERIF_C15_WORKERS (default 4),
// VERIF_C15_RESTART (trees per server pair, 0 = never; default 0 quick / 150 thorough),
// VERIF_C15_MAXNODES (thorough: node budget of the depth-3 fan-out-3 shapes, default 10),
// VERIF_C15_LOG=1 keeps the server log, VERIF_C15_PROGRESS=1 prints progress to stderr,
// VERIF_C15_NOSECOND=1 skips leg (c).

import (
	"crypto/sha256"
	"encoding/json"
	"fmt"
	"io"
	"log"
	"math"
	"math/rand"
	"os"
	"sort"
	"strconv"
	"strings"
	"sync"
	"testing"
	"time"
	"unicode/utf8"

	"github.com/goccy/go-yaml"
	"github.com/google/uuid"
	"github.com/nats-io/nats.go"
	"github.com/simpleiot/simpleiot/client"
	"github.com/simpleiot/simpleiot/data"
	"github.com/simpleiot/simpleiot/server"
)

// ---------------------------------------------------------------------------------------------
// corpus

type verifC15Str struct {
	Label string
	S     string
	Plain bool // plain ASCII word(s), nothing YAML-significant
}

func verifC15Long() string {
	var b strings.Builder
	for b.Len() < 2048 {
		b.WriteString("lorem ipsum dolor sit amet, ")
	}
	return strings.TrimSpace(b.String()[:2048]) + "."
}

func verifC15Corpus() []verifC15Str {
	return []verifC15Str{
		{"empty", "", true},
		{"word", "abc", true},
		{"words", "hello world", true},
		{"name", "Pump 1", true},
		{"name2", "north tank level", true},
		{"lead-space", " lead", false},
		{"trail-space", "trail ", false},
		{"both-space", "  both  ", false},
		{"only-space", " ", false},
		{"colon-space", "a: b", false},
		{"colon-end", "key:", false},
		{"colon", ":", false},
		{"hash-mid", "a #b", false},
		{"hash-lead", "#hash", false},
		{"dash-item", "- item", false},
		{"dash", "-", false},
		{"pipe", "|", false},
		{"gt", ">", false},
		{"pipe-text", "| literal", false},
		{"gt-text", "> folded", false},
		{"squote", "'single'", false},
		{"dquote", "\"double\"", false},
		{"apostrophe", "it's", false},
		{"inner-dquote", "say \"hi\" now", false},
		{"lone-squote", "'", false},
		{"lone-dquote", "\"", false},
		{"null", "null", false},
		{"Null", "Null", false},
		{"tilde", "~", false},
		{"true", "true", false},
		{"false", "false", false},
		{"yes", "yes", false},
		{"no", "no", false},
		{"on", "on", false},
		{"int", "123", false},
		{"neg-int", "-7", false},
		{"exp", "1e3", false},
		{"hex", "0x10", false},
		{"octal", "0o17", false},
		{"float", "1.5", false},
		{"dot-inf", ".inf", false},
		{"dot-nan", ".nan", false},
		{"date", "2001-12-14", false},
		{"two-lines", "line1\nline2", false},
		{"trail-newline", "ends with newline\n", false},
		{"lead-newline", "\nstarts with newline", false},
		{"blank-line", "two\n\nblank", false},
		{"lines-indent", "a\n  indented\nb", false},
		{"lines-trail-space", "a \nb", false},
		{"only-newline", "\n", false},
		{"tab-mid", "tab\there", false},
		{"tab-lead", "\tleadtab", false},
		{"latin", "é ü ñ ß", false},
		{"cjk", "日本語のテキスト", false},
		{"rtl", "שלום עולם", false},
		{"emoji", "emoji 😀🚀", false},
		{"combining", "e\u0301 a\u0323\u0308 combining", false},
		{"nbsp", "a\u00a0b", false},
		{"long-2k", verifC15Long(), false},
		{"doc-sep", "---", false},
		{"doc-sep-text", "--- doc", false},
		{"doc-end", "...", false},
		{"flow-map", "{a: b}", false},
		{"flow-seq", "[1, 2]", false},
		{"lbrace", "{", false},
		{"anchor", "&anchor", false},
		{"alias", "*alias", false},
		{"tag", "!tag", false},
		{"tag-str", "!!str x", false},
		{"directive", "%YAML 1.2", false},
		{"at", "@at", false},
		{"backtick", "`back", false},
		{"backslash", "back\\slash\\n", false},
		{"question", "? q", false},
		{"comma", "a, b", false},
		{"merge", "<<", false},
		{"equals", "=", false},
		{"yaml-like", "text: x\nkey: y", false},
		{"list-like", "- a\n- b", false},
	}
}

var verifC15Values = []float64{0, 1, -1.5, 1e300, 1e-300, float64(math.MaxInt64), 1e6}

var verifC15Types = []string{"group", "variable", "device"}

const (
	verifC15TagType = "verifC15Tag"
	verifC15Marker  = " (import)"
)

// ---------------------------------------------------------------------------------------------
// tree shapes (unordered rooted trees)

type verifC15Shape struct {
	Kids []*verifC15Shape
}

func (s *verifC15Shape) String() string {
	var b strings.Builder
	b.WriteString("(")
	for _, k := range s.Kids {
		b.WriteString(k.String())
	}
	b.WriteString(")")
	return b.String()
}

func (s *verifC15Shape) depth() int {
	d := 0
	for _, k := range s.Kids {
		if kd := k.depth() + 1; kd > d {
			d = kd
		}
	}
	return d
}

func (s *verifC15Shape) nodes() int {
	n := 1
	for _, k := range s.Kids {
		n += k.nodes()
	}
	return n
}

func (s *verifC15Shape) fan() int {
	f := len(s.Kids)
	for _, k := range s.Kids {
		if kf := k.fan(); kf > f {
			f = kf
		}
	}
	return f
}

// all unordered shapes with depth (edges below the top node) <= depth and fan-out <= fan
func verifC15Shapes(depth, fan int) []*verifC15Shape {
	if depth == 0 {
		return []*verifC15Shape{{}}
	}
	sub := verifC15Shapes(depth-1, fan)
	var ret []*verifC15Shape
	var rec func(start int, cur []*verifC15Shape)
	rec = func(start int, cur []*verifC15Shape) {
		cp := make([]*verifC15Shape, len(cur))
		copy(cp, cur)
		ret = append(ret, &verifC15Shape{Kids: cp})
		if len(cur) == fan {
			return
		}
		for i := start; i < len(sub); i++ {
			rec(i, append(cur, sub[i]))
		}
	}
	rec(0, nil)
	return ret
}

// ---------------------------------------------------------------------------------------------
// model tree

type verifC15MNode struct {
	Idx        int
	ID         string
	Type       string
	Points     data.Points
	PLabels    []string
	EdgePoints data.Points
	ELabels    []string
	Children   []*verifC15MNode
	Deleted    bool
}

func (n *verifC15MNode) addP(p data.Point, label string) {
	n.Points = append(n.Points, p)
	n.PLabels = append(n.PLabels, label)
}

func (n *verifC15MNode) addE(p data.Point, label string) {
	n.EdgePoints = append(n.EdgePoints, p)
	n.ELabels = append(n.ELabels, label)
}

type verifC15Case struct {
	Seq    int
	Phase  string // "string" | "value" | "mixed" | "shape-plain" | "shape-nasty"
	Shape  *verifC15Shape
	Rot    int // node type rotation
	Off    int // corpus offset / string index / value index
	Top    *verifC15MNode
	Live   []*verifC15MNode // preorder
	OutIDs []string
}

func verifC15FmtVal(v float64) string {
	return strconv.FormatFloat(v, 'g', -1, 64)
}

// decorate fills the points of node n; s(k) / v(k) pick the k-th string / value for this node.
func verifC15Decorate(n *verifC15MNode, s func(k int) verifC15Str, v func(k int) float64, mode int) {
	n.addP(data.Point{Type: verifC15TagType, Text: fmt.Sprintf("n%v", n.Idx)}, "tag")

	switch mode {
	case 0: // dense
		n.addP(data.Point{Type: data.PointTypeDescription, Text: s(0).S}, s(0).Label)
		n.addP(data.Point{Type: data.PointTypeValue, Value: v(0)}, "")
		n.addP(data.Point{Type: "vcEmptyKey", Key: "", Text: s(1).S, Value: v(1)}, s(1).Label)
		n.addP(data.Point{Type: "vcZeroKey", Key: "0", Text: s(2).S, Value: v(2)}, s(2).Label)
		n.addP(data.Point{Type: "vcArr", Key: "0", Value: v(3)}, "")
		n.addP(data.Point{Type: "vcArr", Key: "1", Text: s(3).S, Value: v(4)}, s(3).Label)
		n.addP(data.Point{Type: "vcArr", Key: "2", Text: s(4).S}, s(4).Label)
		n.addP(data.Point{Type: "vcMap", Key: "a", Text: s(5).S, Value: v(5)}, s(5).Label)
		n.addP(data.Point{Type: "vcMap", Key: "b", Text: s(6).S}, s(6).Label)
		n.addP(data.Point{Type: "vcTomb", Key: "", Text: s(7).S, Value: v(6), Tombstone: 1}, s(7).Label)
		n.addP(data.Point{Type: "vcArr", Key: "3", Text: s(8).S, Tombstone: 1}, s(8).Label)
		n.addE(data.Point{Type: "role", Text: s(9).S}, s(9).Label)
		n.addE(data.Point{Type: "vcEdge", Key: "0", Value: v(7)}, "")
		n.addE(data.Point{Type: "vcEdge", Key: "a", Text: s(10).S, Value: v(8)}, s(10).Label)
		n.addE(data.Point{Type: "vcEdgeTomb", Text: s(11).S, Tombstone: 1}, s(11).Label)
	case 1: // medium, no edge points
		n.addP(data.Point{Type: data.PointTypeDescription, Text: s(0).S}, s(0).Label)
		n.addP(data.Point{Type: data.PointTypeValue, Value: v(0)}, "")
		n.addP(data.Point{Type: "vcMap", Key: "a", Text: s(1).S}, s(1).Label)
	case 2: // sparse, one edge point
		n.addP(data.Point{Type: data.PointTypeValue, Value: v(0)}, "")
		n.addE(data.Point{Type: "role", Text: s(0).S}, s(0).Label)
	default: // bare: tag only
	}
}

// phases:
//
//	"string":      dense decoration, every text role of every node holds corpus[off], values from {0,1,-1.5}
//	"value":       dense decoration, plain texts, every value role holds values[off]
//	"mixed":       dense decoration, strings and values rolling through the whole corpus / value list
//	"shape-plain": decoration density by node, plain texts and values {0,1,-1.5} (isolates shape / id handling)
//	"shape-nasty": decoration density by node, strings and values rolling through the whole corpus / value list
func verifC15BuildCase(seq int, phase string, shape *verifC15Shape, rot, off int,
	corpus, plain []verifC15Str) *verifC15Case {
	cs := &verifC15Case{Seq: seq, Phase: phase, Shape: shape, Rot: rot, Off: off}
	benign := []float64{0, 1, -1.5}

	var build func(s *verifC15Shape) *verifC15MNode
	build = func(s *verifC15Shape) *verifC15MNode {
		n := &verifC15MNode{Idx: len(cs.Live), ID: uuid.New().String()}
		n.Type = verifC15Types[(n.Idx+rot)%len(verifC15Types)]
		cs.Live = append(cs.Live, n)
		c := off + n.Idx*13
		roll := func(list []verifC15Str) func(k int) verifC15Str {
			return func(k int) verifC15Str { return list[(c+k)%len(list)] }
		}
		rollV := func(list []float64) func(k int) float64 {
			return func(k int) float64 { return list[(c+k)%len(list)] }
		}
		mode := 0
		var sf func(k int) verifC15Str
		var vf func(k int) float64
		switch phase {
		case "string":
			sf = func(int) verifC15Str { return corpus[off%len(corpus)] }
			vf = rollV(benign)
		case "value":
			sf = roll(plain)
			vf = func(int) float64 { return verifC15Values[off%len(verifC15Values)] }
		case "mixed":
			sf = roll(corpus)
			vf = rollV(verifC15Values)
		case "shape-plain":
			sf = roll(plain)
			vf = rollV(benign)
			mode = (n.Idx + off) % 4
		default: // shape-nasty
			sf = roll(corpus)
			vf = rollV(verifC15Values)
			mode = (n.Idx + off) % 4
		}
		verifC15Decorate(n, sf, vf, mode)
		for _, k := range s.Kids {
			n.Children = append(n.Children, build(k))
		}
		return n
	}
	cs.Top = build(shape)

	// cross references
	nl := len(cs.Live)
	first, last := cs.Live[0], cs.Live[nl-1]
	out1, out2 := uuid.New().String(), uuid.New().String()
	cs.OutIDs = []string{out1, out2}
	// forward reference (target comes later in the traversal), or self reference for one node
	first.addP(data.Point{Type: data.PointTypeNodeID, Text: last.ID}, fmt.Sprintf("ref->n%v", last.Idx))
	first.addP(data.Point{Type: data.PointTypeNodeID, Key: "out1", Text: out1}, "ref->out1")
	first.addP(data.Point{Type: data.PointTypeNodeID, Key: "none", Text: ""}, "ref->(blank)")
	// a point of another type that happens to hold an id must stay as it is
	first.addP(data.Point{Type: "vcNotARef", Text: last.ID}, fmt.Sprintf("id-of-n%v", last.Idx))
	// backward reference
	last.addP(data.Point{Type: data.PointTypeNodeID, Key: "back", Text: first.ID}, "ref->n0")
	last.addP(data.Point{Type: data.PointTypeNodeID, Key: "out1b", Text: out1}, "ref->out1")
	last.addP(data.Point{Type: data.PointTypeNodeID, Key: "out2", Text: out2}, "ref->out2")
	if nl > 2 {
		mid := cs.Live[nl/2]
		mid.addP(data.Point{Type: data.PointTypeNodeID, Key: "self", Text: mid.ID}, fmt.Sprintf("ref->n%v", mid.Idx))
		mid.addP(data.Point{Type: data.PointTypeNodeID, Key: "top", Text: first.ID, Tombstone: 1}, "ref->n0")
	}

	// deleted child (with a grandchild for every second case) below node (seq mod n)
	host := cs.Live[seq%nl]
	del := &verifC15MNode{Idx: 1000, ID: uuid.New().String(), Type: "variable", Deleted: true}
	del.addP(data.Point{Type: verifC15TagType, Text: "deleted"}, "tag")
	del.addP(data.Point{Type: data.PointTypeDescription, Text: "deleted child"}, "words")
	if seq%2 == 0 {
		g := &verifC15MNode{Idx: 1001, ID: uuid.New().String(), Type: "variable"}
		g.addP(data.Point{Type: verifC15TagType, Text: "deleted-grandchild"}, "tag")
		del.Children = append(del.Children, g)
	}
	host.Children = append(host.Children, del)

	return cs
}

// render a model tree without ids (canonical: children in construction order, which is canonical
// for the shape; points in construction order)
func verifC15Render(n *verifC15MNode, full bool) string {
	var b strings.Builder
	var rec func(n *verifC15MNode)
	pt := func(p data.Point, label string) {
		b.WriteString(p.Type)
		if p.Key != "" {
			b.WriteString("[" + p.Key + "]")
		}
		b.WriteString("=")
		if full {
			if p.Type == data.PointTypeNodeID || p.Type == "vcNotARef" {
				b.WriteString(label)
			} else {
				b.WriteString(strconv.Quote(p.Text))
			}
		} else {
			b.WriteString("<" + label + ">")
		}
		if p.Value != 0 {
			b.WriteString("|" + verifC15FmtVal(p.Value))
		}
		if p.Tombstone != 0 {
			b.WriteString("|T" + strconv.Itoa(p.Tombstone))
		}
	}
	rec = func(n *verifC15MNode) {
		if n.Deleted {
			b.WriteString("DELETED:")
		}
		b.WriteString(n.Type)
		b.WriteString("{")
		for i, p := range n.Points {
			if p.Type == verifC15TagType {
				continue
			}
			pt(p, n.PLabels[i])
			b.WriteString(" ")
		}
		if len(n.EdgePoints) > 0 {
			b.WriteString("/edge: ")
			for i, p := range n.EdgePoints {
				pt(p, n.ELabels[i])
				b.WriteString(" ")
			}
		}
		b.WriteString("}")
		if len(n.Children) > 0 {
			b.WriteString("[")
			for i, c := range n.Children {
				if i > 0 {
					b.WriteString(", ")
				}
				rec(c)
			}
			b.WriteString("]")
		}
	}
	rec(n)
	return b.String()
}

func verifC15Nontrivial(cs *verifC15Case, byText map[string]verifC15Str) bool {
	if len(cs.Live) > 1 {
		return true
	}
	for _, n := range cs.Live {
		for _, p := range append(append(data.Points{}, n.Points...), n.EdgePoints...) {
			if p.Type == data.PointTypeNodeID || p.Type == "vcNotARef" || p.Type == verifC15TagType {
				continue
			}
			if c, ok := byText[p.Text]; ok && !c.Plain {
				return true
			}
		}
	}
	return false
}

// ---------------------------------------------------------------------------------------------
// store access

type verifC15RNode struct {
	NE       data.NodeEdge
	Children []*verifC15RNode
}

func verifC15Read(nc *nats.Conn, parent string, depth int) ([]*verifC15RNode, error) {
	if depth > 8 {
		return nil, fmt.Errorf("tree deeper than 8 below %v (cycle?)", parent)
	}
	kids, err := client.GetNodes(nc, parent, "all", "", false)
	if err != nil {
		return nil, err
	}
	var ret []*verifC15RNode
	for _, k := range kids {
		r := &verifC15RNode{NE: k}
		r.Children, err = verifC15Read(nc, k.ID, depth+1)
		if err != nil {
			return nil, err
		}
		ret = append(ret, r)
	}
	return ret, nil
}

// the acknowledge timeout of the client is one second; on a loaded machine a request can time
// out although nothing is wrong. All harness writes are idempotent, so they are retried.
func verifC15Retry(f func() error) error {
	var err error
	for try := 0; try < 4; try++ {
		err = f()
		if err == nil || !strings.Contains(err.Error(), "timeout") {
			return err
		}
		time.Sleep(300 * time.Millisecond)
	}
	return err
}

func verifC15Delete(nc *nats.Conn, id, parent string) error {
	return verifC15Retry(func() error { return client.DeleteNode(nc, id, parent, "") })
}

func verifC15Send(nc *nats.Conn, n *verifC15MNode, parent string) error {
	// half of the points go with SendNode, the rest afterwards with SendNodePoints /
	// SendEdgePoint(s) (all three entry points are exercised)
	ne := data.NodeEdge{ID: n.ID, Type: n.Type, Parent: parent}
	var laterP, laterE data.Points
	for i, p := range n.Points {
		if i%2 == 0 {
			ne.Points = append(ne.Points, p)
		} else {
			laterP = append(laterP, p)
		}
	}
	for i, p := range n.EdgePoints {
		if i%2 == 0 && n.Idx%2 == 0 {
			ne.EdgePoints = append(ne.EdgePoints, p)
		} else {
			laterE = append(laterE, p)
		}
	}
	if err := verifC15Retry(func() error { return client.SendNode(nc, ne, "") }); err != nil {
		return fmt.Errorf("SendNode: %w", err)
	}
	if len(laterP) > 0 {
		if err := verifC15Retry(func() error { return client.SendNodePoints(nc, n.ID, laterP, true) }); err != nil {
			return fmt.Errorf("SendNodePoints: %w", err)
		}
	}
	if len(laterE) == 1 {
		if err := verifC15Retry(func() error { return client.SendEdgePoint(nc, n.ID, parent, laterE[0], true) }); err != nil {
			return fmt.Errorf("SendEdgePoint: %w", err)
		}
	} else if len(laterE) > 1 {
		if err := verifC15Retry(func() error { return client.SendEdgePoints(nc, n.ID, parent, laterE, true) }); err != nil {
			return fmt.Errorf("SendEdgePoints: %w", err)
		}
	}
	for _, c := range n.Children {
		if err := verifC15Send(nc, c, n.ID); err != nil {
			return err
		}
	}
	if n.Deleted {
		if err := verifC15Delete(nc, n.ID, parent); err != nil {
			return fmt.Errorf("DeleteNode: %w", err)
		}
	}
	return nil
}

func verifC15NewGroup(nc *nats.Conn, id, parent, desc string) error {
	return verifC15Retry(func() error {
		return client.SendNode(nc, data.NodeEdge{ID: id, Type: data.NodeTypeGroup, Parent: parent,
			Points: data.Points{{Type: data.PointTypeDescription, Text: desc}}}, "")
	})
}

// model -> what the store is expected to return (live nodes only)
func verifC15Expect(n *verifC15MNode, parent string) *verifC15RNode {
	r := &verifC15RNode{NE: data.NodeEdge{ID: n.ID, Type: n.Type, Parent: parent,
		Points: n.Points, EdgePoints: n.EdgePoints}}
	for _, c := range n.Children {
		if c.Deleted {
			continue
		}
		r.Children = append(r.Children, verifC15Expect(c, n.ID))
	}
	return r
}

// ---------------------------------------------------------------------------------------------
// comparison

type verifC15Diff struct {
	Class  string
	Detail string
	Label  string // corpus label involved, if any
	Ext    string // generated string (quoted) involved, if any
	Needle string // point type to look for in the YAML
}

type verifC15PKey struct{ Type, Key string }

type verifC15PVal struct {
	Bits uint64
	Text string
	Tomb int
}

func verifC15NormKey(k string) string {
	if k == "" {
		return "0"
	}
	return k
}

func verifC15PointSet(pts data.Points, edge bool) (map[verifC15PKey]verifC15PVal, []string) {
	m := make(map[verifC15PKey]verifC15PVal)
	var dups []string
	for _, p := range pts {
		if edge {
			if p.Type == data.PointTypeNodeType {
				continue
			}
			if p.Type == data.PointTypeTombstone && p.Value == 0 {
				continue
			}
		}
		k := verifC15PKey{p.Type, verifC15NormKey(p.Key)}
		if _, ok := m[k]; ok {
			dups = append(dups, fmt.Sprintf("%v[%v]", k.Type, k.Key))
		}
		m[k] = verifC15PVal{math.Float64bits(p.Value), p.Text, p.Tombstone}
	}
	return m, dups
}

func verifC15Tag(ne data.NodeEdge) string {
	for _, p := range ne.Points {
		if p.Type == verifC15TagType {
			return p.Text
		}
	}
	return ""
}

func verifC15Short(s string) string {
	q := strconv.Quote(s)
	if len(q) > 90 {
		q = q[:60] + fmt.Sprintf("...(%v bytes)", len(s))
	}
	return q
}

type verifC15Cmp struct {
	leg      string // "pre", "a", "b", "c"
	remap    bool   // ids are expected to be replaced
	marker   bool   // top description gains the marker
	byText   map[string]verifC15Str
	idMap    map[string]string // old node id -> new node id (by tag matching)
	outMap   map[string]string // old outside ref -> new text
	diffs    []verifC15Diff
	oldIDs   map[string]bool
	newIDs   map[string]int
	maxDiffs int
}

func (c *verifC15Cmp) add(class, detail, label, needle string) {
	if len(c.diffs) >= c.maxDiffs {
		return
	}
	prefix := ""
	if c.leg == "pre" {
		prefix = "precondition (store does not hold what was built): "
	}
	c.diffs = append(c.diffs, verifC15Diff{Class: prefix + class,
		Detail: "leg (" + c.leg + "): " + detail, Label: label, Needle: needle})
}

func (c *verifC15Cmp) label(text string) string {
	if s, ok := c.byText[text]; ok {
		return s.Label
	}
	return ""
}

// pass 1: match nodes by tag and collect the id map
func (c *verifC15Cmp) match(orig, imp *verifC15RNode) {
	c.oldIDs[orig.NE.ID] = true
	c.newIDs[imp.NE.ID]++
	if prev, ok := c.idMap[orig.NE.ID]; ok && prev != imp.NE.ID {
		c.add("id map is not a function", fmt.Sprintf("old id of %v maps to two new ids", verifC15Tag(orig.NE)), "", "")
	}
	c.idMap[orig.NE.ID] = imp.NE.ID
	impByTag := make(map[string]*verifC15RNode)
	for _, k := range imp.Children {
		t := verifC15Tag(k.NE)
		if _, dup := impByTag[t]; dup {
			c.add("extra child after import", fmt.Sprintf("two children with tag %q below %v", t, verifC15Tag(imp.NE)), "", "")
		}
		impByTag[t] = k
	}
	for _, k := range orig.Children {
		t := verifC15Tag(k.NE)
		ik, ok := impByTag[t]
		if !ok {
			continue // reported in pass 2
		}
		c.match(k, ik)
	}
}

// pass 2: compare
func (c *verifC15Cmp) compare(orig, imp *verifC15RNode, wantParent string, top bool) {
	who := verifC15Tag(orig.NE)
	if imp.NE.Type != orig.NE.Type {
		c.add("node type changed", fmt.Sprintf("node %v: type %q -> %q", who, orig.NE.Type, imp.NE.Type), "", "")
	}
	if imp.NE.Parent != wantParent {
		c.add("parent field wrong", fmt.Sprintf("node %v: parent %q, want %q", who, imp.NE.Parent, wantParent), "", "")
	}
	if c.remap {
		if imp.NE.ID == orig.NE.ID {
			c.add("id not replaced", fmt.Sprintf("node %v kept id %v", who, imp.NE.ID), "", "")
		}
	} else if imp.NE.ID != orig.NE.ID {
		c.add("id changed although ids are preserved", fmt.Sprintf("node %v: id %v -> %v", who, orig.NE.ID, imp.NE.ID), "", "")
	}

	// node points
	om, _ := verifC15PointSet(orig.NE.Points, false)
	im, idups := verifC15PointSet(imp.NE.Points, false)
	for _, d := range idups {
		c.add("duplicate point after import", fmt.Sprintf("node %v: point %v twice", who, d), "", "")
	}
	keys := make([]verifC15PKey, 0, len(om))
	for k := range om {
		keys = append(keys, k)
	}
	sort.Slice(keys, func(i, j int) bool {
		if keys[i].Type != keys[j].Type {
			return keys[i].Type < keys[j].Type
		}
		return keys[i].Key < keys[j].Key
	})
	for _, k := range keys {
		ov := om[k]
		iv, ok := im[k]
		pn := fmt.Sprintf("node %v point %v[%v]", who, k.Type, k.Key)
		if !ok {
			c.add("node point missing after import", pn+" (text "+verifC15Short(ov.Text)+")", c.label(ov.Text), k.Type)
			continue
		}
		if iv.Bits != ov.Bits {
			c.add("node point value changed", fmt.Sprintf("%v: value %v (bits %#x) -> %v (bits %#x)", pn,
				verifC15FmtVal(math.Float64frombits(ov.Bits)), ov.Bits,
				verifC15FmtVal(math.Float64frombits(iv.Bits)), iv.Bits), "value "+verifC15FmtVal(math.Float64frombits(ov.Bits)), k.Type)
		}
		if iv.Tomb != ov.Tomb {
			c.add("node point tombstone changed", fmt.Sprintf("%v: tombstone %v -> %v", pn, ov.Tomb, iv.Tomb), "", k.Type)
		}
		wantText := ov.Text
		switch {
		case k.Type == data.PointTypeNodeID && c.remap && ov.Text != "":
			if nid, in := c.idMap[ov.Text]; in {
				if iv.Text != nid {
					cl := "nodeID reference not remapped to the new id of its target"
					if iv.Text == ov.Text {
						cl = "nodeID reference not remapped (still the old id)"
					}
					c.add(cl, fmt.Sprintf("%v: old target %v, new id of target %v, got %v", pn, ov.Text, nid, iv.Text), "", k.Type)
				}
			} else {
				if prev, seen := c.outMap[ov.Text]; seen {
					if prev != iv.Text {
						c.add("outside nodeID reference mapped inconsistently",
							fmt.Sprintf("%v: old %v -> %v here, -> %v elsewhere", pn, ov.Text, iv.Text, prev), "", k.Type)
					}
				} else {
					c.outMap[ov.Text] = iv.Text
				}
			}
			continue
		case k.Type == data.PointTypeDescription && top && c.marker:
			wantText = ov.Text + verifC15Marker
			if iv.Text == ov.Text {
				c.add("top description lacks the import marker", pn+": "+verifC15Short(iv.Text), c.label(ov.Text), k.Type)
				continue
			}
		case k.Type == data.PointTypeDescription && !top && c.marker:
			if iv.Text == ov.Text+verifC15Marker && ov.Text != iv.Text {
				c.add("import marker on a description that is not the top node's", pn, c.label(ov.Text), k.Type)
				continue
			}
		}
		if iv.Text != wantText {
			c.add("node point text changed", fmt.Sprintf("%v: want %v, got %v", pn, verifC15Short(wantText), verifC15Short(iv.Text)), c.label(ov.Text), k.Type)
		}
	}
	for k, iv := range im {
		if _, ok := om[k]; !ok {
			c.add("extra node point after import", fmt.Sprintf("node %v point %v[%v] text %v", who, k.Type, k.Key, verifC15Short(iv.Text)), "", k.Type)
		}
	}

	// edge points
	oe, _ := verifC15PointSet(orig.NE.EdgePoints, true)
	ie, edups := verifC15PointSet(imp.NE.EdgePoints, true)
	for _, d := range edups {
		c.add("duplicate edge point after import", fmt.Sprintf("node %v: edge point %v twice", who, d), "", "")
	}
	for k, ov := range oe {
		iv, ok := ie[k]
		pn := fmt.Sprintf("node %v edge point %v[%v]", who, k.Type, k.Key)
		if !ok {
			c.add("edge point missing after import", pn+" (text "+verifC15Short(ov.Text)+")", c.label(ov.Text), k.Type)
			continue
		}
		if iv.Bits != ov.Bits {
			c.add("edge point value changed", fmt.Sprintf("%v: value %v -> %v", pn,
				verifC15FmtVal(math.Float64frombits(ov.Bits)), verifC15FmtVal(math.Float64frombits(iv.Bits))),
				"value "+verifC15FmtVal(math.Float64frombits(ov.Bits)), k.Type)
		}
		if iv.Tomb != ov.Tomb {
			c.add("edge point tombstone changed", fmt.Sprintf("%v: tombstone %v -> %v", pn, ov.Tomb, iv.Tomb), "", k.Type)
		}
		if iv.Text != ov.Text {
			c.add("edge point text changed", fmt.Sprintf("%v: want %v, got %v", pn, verifC15Short(ov.Text), verifC15Short(iv.Text)), c.label(ov.Text), k.Type)
		}
	}
	for k, iv := range ie {
		if _, ok := oe[k]; !ok {
			c.add("extra edge point after import", fmt.Sprintf("node %v edge point %v[%v] text %v value %v", who, k.Type, k.Key,
				verifC15Short(iv.Text), verifC15FmtVal(math.Float64frombits(iv.Bits))), "", k.Type)
		}
	}

	// children
	impByTag := make(map[string]*verifC15RNode)
	for _, k := range imp.Children {
		impByTag[verifC15Tag(k.NE)] = k
	}
	seen := make(map[string]bool)
	for _, k := range orig.Children {
		t := verifC15Tag(k.NE)
		seen[t] = true
		ik, ok := impByTag[t]
		if !ok {
			c.add("child missing after import", fmt.Sprintf("child %v of node %v", t, who), "", "")
			continue
		}
		c.compare(k, ik, imp.NE.ID, false)
	}
	for _, k := range imp.Children {
		t := verifC15Tag(k.NE)
		if seen[t] {
			continue
		}
		if strings.HasPrefix(t, "deleted") {
			c.add("deleted child present after import", fmt.Sprintf("child %v of node %v", t, who), "", "")
		} else {
			c.add("extra child after import", fmt.Sprintf("child %q (type %v) of node %v", t, k.NE.Type, who), "", "")
		}
	}
}

func (c *verifC15Cmp) finish() {
	if !c.remap {
		return
	}
	for id, n := range c.newIDs {
		if n > 1 {
			c.add("id map is not injective", fmt.Sprintf("new id %v used by %v nodes", id, n), "", "")
		}
		if c.oldIDs[id] {
			c.add("new id collides with an old id", id, "", "")
		}
	}
	rev := make(map[string]string)
	for o, n := range c.outMap {
		if p, ok := rev[n]; ok && p != o {
			c.add("outside nodeID references merged", fmt.Sprintf("old %v and %v both -> %v", p, o, n), "", data.PointTypeNodeID)
		}
		rev[n] = o
		if n != "" && c.newIDs[n] > 0 {
			c.add("outside nodeID reference mapped onto a node of the imported tree", fmt.Sprintf("old %v -> %v", o, n), "", data.PointTypeNodeID)
		}
		if n == "" {
			c.add("outside nodeID reference lost", fmt.Sprintf("old %v -> blank", o), "", data.PointTypeNodeID)
		}
	}
}

func verifC15Compare(leg string, remap, marker bool, orig, imp *verifC15RNode, wantParent string,
	byText map[string]verifC15Str) []verifC15Diff {
	c := &verifC15Cmp{leg: leg, remap: remap, marker: marker, byText: byText,
		idMap: map[string]string{}, outMap: map[string]string{}, oldIDs: map[string]bool{},
		newIDs: map[string]int{}, maxDiffs: 200}
	c.match(orig, imp)
	c.compare(orig, imp, wantParent, true)
	c.finish()
	return c.diffs
}

// ---------------------------------------------------------------------------------------------
// result aggregation

type verifC15Class struct {
	Class      string   `json:"class"`
	Count      int      `json:"count"`
	Cases      int      `json:"cases"`
	Labels     []string `json:"corpus_labels,omitempty"`
	ExtCount   int      `json:"generated_strings,omitempty"`
	ExtShort   []string `json:"generated_examples,omitempty"`
	Reproducer string   `json:"reproducer"`
	Detail     string   `json:"detail"`

	labels   map[string]bool
	exts     map[string]bool
	caseSeen map[int]bool
	bestSize int
	bestSeq  int
}

type verifC15Result struct {
	Evaluations int              `json:"evaluations"`
	Distinct    int              `json:"distinct_nontrivial"`
	Rule        string           `json:"rule"`
	Samples     []string         `json:"samples"`
	Exhaustive  bool             `json:"exhaustive"`
	Mismatches  int              `json:"mismatches"`
	Classes     []*verifC15Class `json:"mismatch_classes"`
	Contracts   string           `json:"contracts"`
	Tier        string           `json:"tier"`
	Seed        int64            `json:"seed"`
	Trees       int              `json:"trees"`
	TreeLegs    int              `json:"tree_leg_comparisons"`
	YamlLeg     int              `json:"yaml_leg_instances"`
	Nodes       int              `json:"nodes_built"`
	Seconds     float64          `json:"seconds"`
	Legs        string           `json:"legs"`
	ServerPairs int              `json:"server_generations"`
	Reruns      int              `json:"reruns_after_suspected_interference"`
}

type verifC15Agg struct {
	mu      sync.Mutex
	classes map[string]*verifC15Class
	res     *verifC15Result
	seen    map[[32]byte]bool
}

func (a *verifC15Agg) report(seq, size int, repro string, yamlData []byte, diffs []verifC15Diff) {
	a.mu.Lock()
	defer a.mu.Unlock()
	for _, d := range diffs {
		a.res.Mismatches++
		cl, ok := a.classes[d.Class]
		if !ok {
			cl = &verifC15Class{Class: d.Class, labels: map[string]bool{}, exts: map[string]bool{}, caseSeen: map[int]bool{}, bestSize: 1 << 30}
			a.classes[d.Class] = cl
		}
		cl.Count++
		cl.caseSeen[seq] = true
		if d.Label != "" {
			cl.labels[d.Label] = true
		}
		if d.Ext != "" && !cl.exts[d.Ext] {
			cl.exts[d.Ext] = true
			cl.ExtCount++
			if len(cl.ExtShort) < 40 { // generated strings arrive in order of length
				cl.ExtShort = append(cl.ExtShort, d.Ext)
			}
		}
		if size < cl.bestSize || (size == cl.bestSize && seq < cl.bestSeq) {
			cl.bestSize = size
			cl.bestSeq = seq
			cl.Reproducer = repro
			cl.Detail = d.Detail
			if sn := verifC15Snippet(yamlData, d.Needle); sn != "" {
				cl.Detail += " | exported YAML: " + sn
			}
		}
	}
}

func verifC15Snippet(y []byte, needle string) string {
	if len(y) == 0 {
		return ""
	}
	lines := strings.Split(string(y), "\n")
	at := -1
	if needle != "" {
		for i, l := range lines {
			if strings.Contains(l, "type: "+needle) {
				at = i
				break
			}
		}
	}
	lo, hi := 0, 12
	if at >= 0 {
		lo, hi = at-1, at+6
	}
	if lo < 0 {
		lo = 0
	}
	if hi > len(lines) {
		hi = len(lines)
	}
	var out []string
	for _, l := range lines[lo:hi] {
		if len(l) > 100 {
			l = l[:100] + "..."
		}
		out = append(out, l)
	}
	return strings.Join(out, "\\n")
}

// ---------------------------------------------------------------------------------------------
// one case against the server(s)

type verifC15Env struct {
	nc, nc2     *nats.Conn
	root, root2 string
	byText      map[string]verifC15Str
	agg         *verifC15Agg
}

// mismatches of one run of one case, held back until it is known whether the case is re-run
type verifC15Rec struct {
	seq, size int
	repro     string
	yamlData  []byte
	diffs     []verifC15Diff
}

type verifC15Recs struct{ list []verifC15Rec }

func (r *verifC15Recs) report(seq, size int, repro string, yamlData []byte, diffs []verifC15Diff) {
	r.list = append(r.list, verifC15Rec{seq, size, repro, yamlData, diffs})
}

// Symptoms that a foreign store can cause: the test server uses fixed ports, and when another
// process starts a test server on the same machine its store attaches to OUR NATS server for a
// moment and answers requests from its own empty database (reads come back empty, writes are
// acknowledged with its errors). A case that shows such a symptom is rebuilt from scratch (fresh
// ids) up to two more times; only what the last run shows is reported.
func (r *verifC15Recs) suspect() bool {
	for _, rec := range r.list {
		for _, d := range rec.diffs {
			switch {
			case strings.HasPrefix(d.Class, "precondition"), strings.HasPrefix(d.Class, "harness"),
				d.Class == "export error", d.Class == "imported top node count wrong",
				strings.HasPrefix(d.Class, "child missing"), strings.HasPrefix(d.Class, "node point missing"),
				strings.HasPrefix(d.Class, "edge point missing"):
				return true
			case strings.HasPrefix(d.Class, "import error") && !strings.Contains(d.Detail, "parsing YAML"):
				return true
			}
		}
	}
	return false
}

func verifC15RunCase(env *verifC15Env, cs *verifC15Case, out *verifC15Recs) (legs int) {
	nc := env.nc
	size := len(cs.Live) * 1000 // smallest reproducer = fewest nodes, then fewest points
	for _, n := range cs.Live {
		size += len(n.Points) + len(n.EdgePoints)
	}
	repro := fmt.Sprintf("case %v (%v, shape %v, type rotation %v, corpus offset %v): %v",
		cs.Seq, cs.Phase, cs.Shape, cs.Rot, cs.Off, verifC15Render(cs.Top, false))
	var yamlData []byte
	fail := func(class, detail string) {
		out.report(cs.Seq, size, repro, yamlData, []verifC15Diff{{Class: class, Detail: detail}})
	}

	p1, p2 := uuid.New().String(), uuid.New().String()
	if err := verifC15NewGroup(nc, p1, env.root, fmt.Sprintf("c15 src %v", cs.Seq)); err != nil {
		fail("harness: cannot create parent group", err.Error())
		return
	}
	if err := verifC15NewGroup(nc, p2, env.root, fmt.Sprintf("c15 dst %v", cs.Seq)); err != nil {
		fail("harness: cannot create parent group", err.Error())
		return
	}
	defer func() {
		// keep the living tree of the server small
		_ = verifC15Delete(nc, p1, env.root)
		_ = verifC15Delete(nc, p2, env.root)
	}()

	if err := verifC15Send(nc, cs.Top, p1); err != nil {
		fail("precondition (store does not hold what was built): build error", err.Error())
		return
	}

	// ORIGINAL
	kids, err := verifC15Read(nc, p1, 0)
	if err != nil || len(kids) != 1 {
		fail("precondition (store does not hold what was built): read back", fmt.Sprintf("err=%v, %v top nodes", err, len(kids)))
		return
	}
	orig := kids[0]
	pre := verifC15Compare("pre", false, false, verifC15Expect(cs.Top, p1), orig, p1, env.byText)
	if len(pre) > 0 {
		out.report(cs.Seq, size, repro, nil, pre)
	}

	// export
	yamlData, err = verifC15Export(nc, cs.Top.ID)
	if err != nil {
		fail("export error", err.Error())
		return
	}
	var exp client.SiotExport
	if err := verifC15Unmarshal(yamlData, &exp); err != nil {
		fail("exported YAML does not parse", err.Error())
	} else {
		if len(exp.Nodes) != 1 {
			fail("export does not hold exactly one top node", fmt.Sprintf("%v nodes", len(exp.Nodes)))
		}
		var walk func(n data.NodeEdgeChildren)
		walk = func(n data.NodeEdgeChildren) {
			if strings.HasPrefix(verifC15Tag(n.NodeEdge), "deleted") {
				fail("deleted child exported", fmt.Sprintf("export holds node %v (%v)", n.ID, verifC15Tag(n.NodeEdge)))
			}
			for _, c := range n.Children {
				walk(c)
			}
		}
		for _, n := range exp.Nodes {
			walk(n)
		}
	}

	// leg (a): new ids below another parent
	legs++
	var errA error
	for try := 0; try < 3; try++ {
		errA = verifC15Import(nc, p2, yamlData, false)
		if errA == nil || !strings.Contains(errA.Error(), "timeout") {
			break
		}
		// an acknowledge timed out: what was imported so far stays below the old parent, use a fresh one
		_ = verifC15Delete(nc, p2, env.root)
		p2 = uuid.New().String()
		if e := verifC15NewGroup(nc, p2, env.root, fmt.Sprintf("c15 dst %v retry", cs.Seq)); e != nil {
			errA = e
			break
		}
	}
	if err := errA; err != nil {
		fail("import error (new ids)", "leg (a): "+err.Error())
	} else {
		got, err := verifC15Read(nc, p2, 0)
		switch {
		case err != nil:
			fail("harness: read back failed", "leg (a): "+err.Error())
		case len(got) != 1:
			fail("imported top node count wrong", fmt.Sprintf("leg (a): %v nodes below the import parent, want 1", len(got)))
		default:
			if d := verifC15Compare("a", true, true, orig, got[0], p2, env.byText); len(d) > 0 {
				out.report(cs.Seq, size, repro, yamlData, d)
			}
		}
	}

	// leg (c): preserved ids on a second instance
	if env.nc2 != nil {
		legs++
		nc2 := env.nc2
		if err := verifC15NewGroup(nc2, p1, env.root2, "c15 second instance"); err != nil {
			fail("harness: cannot create parent group", "leg (c): "+err.Error())
		} else if err := verifC15Retry(func() error { return verifC15Import(nc2, p1, yamlData, true) }); err != nil {
			fail("import error (preserved ids, other instance)", "leg (c): "+err.Error())
		} else {
			got, err := verifC15Read(nc2, p1, 0)
			switch {
			case err != nil:
				fail("harness: read back failed", "leg (c): "+err.Error())
			case len(got) != 1:
				fail("imported top node count wrong", fmt.Sprintf("leg (c): %v nodes below the import parent, want 1", len(got)))
			default:
				if d := verifC15Compare("c", false, true, orig, got[0], p1, env.byText); len(d) > 0 {
					out.report(cs.Seq, size, repro, yamlData, d)
				}
			}
			_ = verifC15Delete(nc2, p1, env.root2)
		}
	}

	// leg (b): delete the original, restore with preserved ids below the original parent
	legs++
	if err := verifC15Delete(nc, cs.Top.ID, p1); err != nil {
		fail("harness: cannot delete the original", err.Error())
		return
	}
	if left, err := client.GetNodes(nc, p1, "all", "", false); err != nil || len(left) != 0 {
		fail("harness: original still listed after delete", fmt.Sprintf("err=%v, %v nodes", err, len(left)))
		return
	}
	if err := verifC15Retry(func() error { return verifC15Import(nc, p1, yamlData, true) }); err != nil {
		fail("import error (preserved ids, same instance)", "leg (b): "+err.Error())
		return
	}
	got, err := verifC15Read(nc, p1, 0)
	switch {
	case err != nil:
		fail("harness: read back failed", "leg (b): "+err.Error())
	case len(got) == 0:
		ep := ""
		for _, p := range orig.NE.EdgePoints {
			ep += fmt.Sprintf("%v[%v] ", p.Type, p.Key)
		}
		// tell a node that is still deleted from an empty answer of a foreign store: with deleted
		// nodes included, our store must list the node with a tombstone edge point
		tomb := ""
		if withDel, err := client.GetNodes(nc, p1, "all", "", true); err == nil {
			for _, n := range withDel {
				if n.ID != cs.Top.ID {
					continue
				}
				for _, p := range n.EdgePoints {
					if p.Type == data.PointTypeTombstone {
						tomb = fmt.Sprintf("tombstone edge point value %v", p.Value)
					}
				}
			}
		}
		if tomb == "" {
			fail("harness: read anomaly", "leg (b): no node below the original parent, and the node is not listed as deleted either")
			break
		}
		fail("restore with preserved ids after delete: top node stays deleted",
			fmt.Sprintf("leg (b): no node below the original parent after ImportNodes(preserveIDs=true) returned nil (%v); edge points of the original top node: %v", tomb, ep))
	case len(got) != 1:
		fail("imported top node count wrong", fmt.Sprintf("leg (b): %v nodes below the import parent, want 1", len(got)))
	default:
		if d := verifC15Compare("b", false, true, orig, got[0], p1, env.byText); len(d) > 0 {
			out.report(cs.Seq, size, repro, yamlData, d)
		}
	}
	return
}

// ---------------------------------------------------------------------------------------------
// pure YAML leg

// the YAML library can panic on its own output; turn that into an error
func verifC15Unmarshal(y []byte, v interface{}) (err error) {
	defer func() {
		if r := recover(); r != nil {
			err = fmt.Errorf("PANIC in yaml.Unmarshal: %v", r)
		}
	}()
	if e := yaml.Unmarshal(y, v); e != nil {
		return fmt.Errorf("%v", verifC15ErrStr(e))
	}
	return nil
}

// even the Error method of the YAML library's errors can panic
func verifC15ErrStr(err error) (s string) {
	defer func() {
		if r := recover(); r != nil {
			s = fmt.Sprintf("PANIC in the Error method of the error value: %v", r)
		}
	}()
	return err.Error()
}

func verifC15Marshal(v interface{}) (y []byte, err error) {
	defer func() {
		if r := recover(); r != nil {
			err = fmt.Errorf("PANIC in yaml.Marshal: %v", r)
		}
	}()
	y, e := yaml.Marshal(v)
	if e != nil {
		return nil, fmt.Errorf("%v", verifC15ErrStr(e))
	}
	return y, nil
}

func verifC15Import(nc *nats.Conn, parent string, y []byte, preserve bool) (err error) {
	defer func() {
		if r := recover(); r != nil {
			err = fmt.Errorf("PANIC in client.ImportNodes: %v", r)
		}
	}()
	return client.ImportNodes(nc, parent, y, "", preserve)
}

func verifC15Export(nc *nats.Conn, id string) (y []byte, err error) {
	defer func() {
		if r := recover(); r != nil {
			err = fmt.Errorf("PANIC in client.ExportNodes: %v", r)
		}
	}()
	return client.ExportNodes(nc, id)
}

// alphabet of the generated strings of the YAML leg
var verifC15Alphabet = []string{"a", "1", " ", "\n", "\t", "-", "?", ":", ",", "[", "]", "{", "}", "#", "&", "*", "!",
	"|", ">", "'", "\"", "%", "@", "`", "~", "=", "<", "\\", ".", "e", "\u00e9", "\U0001F600"}

func verifC15Generated(maxLen int) []string {
	ret := []string{}
	cur := []string{""}
	for l := 1; l <= maxLen; l++ {
		var next []string
		for _, p := range cur {
			for _, c := range verifC15Alphabet {
				next = append(next, p+c)
			}
		}
		ret = append(ret, next...)
		cur = next
	}
	return ret
}

var verifC15YamlValues = []float64{0, 1, -1.5, 1e300, 1e-300, float64(math.MaxInt64), 1e6, -2e6, 1.5e6, 100000, 123456789,
	1e-5, 0.1, 1e21, 1e20, math.MaxFloat64, math.SmallestNonzeroFloat64, -1e300, 0.30000000000000004, float64(1 << 53)}

func verifC15YamlLeg(corpus []verifC15Str, genLen int, agg *verifC15Agg) int {
	n := 0
	type item struct {
		label, ext, s string
	}
	var items []item
	for _, c := range corpus {
		items = append(items, item{label: c.Label, s: c.S})
	}
	for _, g := range verifC15Generated(genLen) {
		items = append(items, item{ext: strconv.Quote(g), s: g})
	}
	for i, it := range items {
		roles := []string{"text", "key"}
		if it.label != "" {
			roles = append(roles, "description+edge text")
		}
		for _, role := range roles {
			n++
			var ne data.NodeEdge
			ne.ID = "id1"
			ne.Type = "variable"
			ne.Parent = "p1"
			switch role {
			case "text":
				ne.Points = data.Points{{Type: "vcText", Text: it.s}}
			case "key":
				ne.Points = data.Points{{Type: "vcKey", Key: it.s, Value: 1}}
			default:
				ne.Points = data.Points{{Type: data.PointTypeDescription, Text: it.s}, {Type: "after", Text: "x"}}
				ne.EdgePoints = data.Points{{Type: "role", Text: it.s}}
			}
			in := client.SiotExport{Nodes: []data.NodeEdgeChildren{{NodeEdge: ne,
				Children: []data.NodeEdgeChildren{{NodeEdge: data.NodeEdge{ID: "id2", Type: "group", Parent: "id1"}}}}}}
			name := it.label
			if name == "" {
				name = "generated"
			}
			repro := fmt.Sprintf("YAML leg: string %v = %v as point %v", name, verifC15Short(it.s), role)
			rep := func(class, detail string, y []byte) {
				agg.report(-1000000+i, len(it.s), repro, y, []verifC15Diff{{Class: class, Detail: detail,
					Label: it.label, Ext: it.ext, Needle: ne.Points[0].Type}})
			}
			y, err := verifC15Marshal(in)
			if err != nil {
				rep("YAML leg: marshal error", err.Error(), nil)
				continue
			}
			var out client.SiotExport
			if err := verifC15Unmarshal(y, &out); err != nil {
				if strings.HasPrefix(err.Error(), "PANIC") {
					rep("YAML leg: yaml.Unmarshal panics on the marshalled "+role, err.Error(), y)
				} else {
					rep("YAML leg: marshalled "+role+" does not parse", err.Error(), y)
				}
				continue
			}
			if len(out.Nodes) != 1 || len(out.Nodes[0].Points) != len(ne.Points) ||
				len(out.Nodes[0].EdgePoints) != len(ne.EdgePoints) || len(out.Nodes[0].Children) != 1 {
				rep("YAML leg: structure changed by marshal/unmarshal ("+role+")", fmt.Sprintf("%+v", out), y)
				continue
			}
			bad := func(what, want, got string) {
				rep("YAML leg: "+what+" changed by marshal/unmarshal",
					fmt.Sprintf("want %v, got %v", verifC15Short(want), verifC15Short(got)), y)
			}
			for j, p := range ne.Points {
				q := out.Nodes[0].Points[j]
				if q.Text != p.Text {
					bad("point text", p.Text, q.Text)
				}
				if q.Key != p.Key {
					bad("point key", p.Key, q.Key)
				}
				if q.Type != p.Type || q.Value != p.Value {
					bad("point type/value", fmt.Sprint(p.Type, p.Value), fmt.Sprint(q.Type, q.Value))
				}
			}
			for j, p := range ne.EdgePoints {
				q := out.Nodes[0].EdgePoints[j]
				if q.Text != p.Text {
					bad("edge point text", p.Text, q.Text)
				}
			}
		}
	}
	// values
	for i, v := range verifC15YamlValues {
		n++
		in := client.SiotExport{Nodes: []data.NodeEdgeChildren{{NodeEdge: data.NodeEdge{ID: "id1", Type: "variable",
			Points: data.Points{{Type: "value", Value: v}}}}}}
		repro := fmt.Sprintf("YAML leg: value %v", verifC15FmtVal(v))
		lbl := "value " + verifC15FmtVal(v)
		y, err := verifC15Marshal(in)
		var out client.SiotExport
		if err == nil {
			err = verifC15Unmarshal(y, &out)
		}
		if err != nil || len(out.Nodes) != 1 || len(out.Nodes[0].Points) != 1 {
			agg.report(-2000000+i, 1, repro, y, []verifC15Diff{{Class: "YAML leg: marshalled value does not parse", Detail: fmt.Sprint(err), Label: lbl, Needle: "value"}})
			continue
		}
		if g := out.Nodes[0].Points[0].Value; math.Float64bits(g) != math.Float64bits(v) {
			agg.report(-2000000+i, 1, repro, y, []verifC15Diff{{Class: "YAML leg: value changed by marshal/unmarshal",
				Detail: fmt.Sprintf("want %v, got %v", verifC15FmtVal(v), verifC15FmtVal(g)), Label: lbl, Needle: "value"}})
		}
	}
	return n
}

// ---------------------------------------------------------------------------------------------
// the test

func verifC15Start(args ...string) (*nats.Conn, data.NodeEdge, func(), error) {
	var lastErr error
	for try := 0; try < 6; try++ {
		nc, root, stop, err := server.TestServer(args...)
		if err == nil {
			return nc, root, stop, nil
		}
		lastErr = err
		if stop != nil {
			func() {
				defer func() { _ = recover() }()
				stop()
			}()
		}
		time.Sleep(4 * time.Second)
	}
	return nil, data.NodeEdge{}, nil, lastErr
}

func TestVerifC15ExportImport(t *testing.T) {
	start := time.Now()
	tier := os.Getenv("VERIF_TIER")
	if tier == "" {
		tier = "quick"
	}
	seed := int64(1)
	if s := os.Getenv("VERIF_SEED"); s != "" {
		if v, err := strconv.ParseInt(s, 10, 64); err == nil {
			seed = v
		}
	}
	workers := 4
	if s := os.Getenv("VERIF_C15_WORKERS"); s != "" {
		if v, err := strconv.Atoi(s); err == nil && v > 0 {
			workers = v
		}
	}
	if os.Getenv("VERIF_C15_LOG") == "" {
		log.SetOutput(io.Discard)
	}

	corpus := verifC15Corpus()
	byText := make(map[string]verifC15Str)
	for _, c := range corpus {
		if !utf8.ValidString(c.S) {
			t.Fatalf("corpus string %v is not valid UTF-8", c.Label)
		}
		if _, dup := byText[c.S]; dup {
			t.Fatalf("corpus string %v twice", c.Label)
		}
		byText[c.S] = c
	}
	N := len(corpus)

	// ---- the family
	var plain []verifC15Str
	for _, c := range corpus {
		if c.Plain {
			plain = append(plain, c)
		}
	}
	thorough := tier == "thorough"
	var cases []*verifC15Case
	add := func(phase string, sh *verifC15Shape, rot, off int) {
		cases = append(cases, verifC15BuildCase(len(cases), phase, sh, rot, off, corpus, plain))
	}
	single := &verifC15Shape{}
	pair := &verifC15Shape{Kids: []*verifC15Shape{{}}}
	// string sweep: one corpus string in every text role of a top node and of a child
	for i := 0; i < N; i++ {
		add("string", pair, i, i)
		if thorough {
			add("string", single, i+1, i)
		}
	}
	// value sweep
	for i := range verifC15Values {
		add("value", pair, i, i)
		if thorough {
			add("value", single, i+1, i)
		}
	}
	// mixed sweep: rolling strings and values
	mixedStep := 11
	if thorough {
		mixedStep = 1
	}
	nMixed := 0
	for off := 0; off < N; off += mixedStep {
		add("mixed", single, off, off)
		add("mixed", pair, off, off+5)
		nMixed += 2
	}
	// shape sweep
	exhaustive := true
	var shapeRule string
	byDepth := func(shapes []*verifC15Shape, d int) []*verifC15Shape {
		var r []*verifC15Shape
		for _, s := range shapes {
			if s.depth() == d {
				r = append(r, s)
			}
		}
		return r
	}
	if thorough {
		f2 := verifC15Shapes(3, 2)
		for i, s := range f2 {
			for rot := 0; rot < 3; rot++ {
				add("shape-plain", s, rot, i*7+rot*3)
				add("shape-nasty", s, rot, i*7+rot*3)
			}
		}
		f3 := verifC15Shapes(2, 3)
		n3 := 0
		for i, s := range f3 {
			if s.fan() < 3 {
				continue // already in f2
			}
			n3++
			for rot := 0; rot < 3; rot++ {
				add("shape-plain", s, rot, i*5+rot)
				add("shape-nasty", s, rot, i*5+rot)
			}
		}
		// depth 3 with fan-out 3: 8436 - 66 - ... shapes with up to 40 nodes; those up to the node
		// budget are part of the family, in order of size
		all3 := byDepth(verifC15Shapes(3, 3), 3)
		var big []*verifC15Shape
		for _, s := range all3 {
			if s.fan() == 3 {
				big = append(big, s)
			}
		}
		sort.SliceStable(big, func(i, j int) bool { return big[i].nodes() < big[j].nodes() })
		maxNodes := 10
		if s := os.Getenv("VERIF_C15_MAXNODES"); s != "" {
			if v, err := strconv.Atoi(s); err == nil {
				maxNodes = v
			}
		}
		nb := 0
		for i, s := range big {
			if s.nodes() > maxNodes {
				break
			}
			nb++
			add("shape-plain", s, i%3, i*3)
			add("shape-nasty", s, (i+1)%3, i*3+1)
		}
		shapeRule = fmt.Sprintf("Shape sweep = every shape once with phase shape-plain and once with shape-nasty for: all %v unordered shapes of depth<=3 (edges below the top node) and fan-out<=2 x 3 node-type rotations; all %v shapes of depth<=2 whose fan-out is exactly 3 x 3 rotations; of the %v shapes of depth 3 with fan-out 3 all %v that have at most %v nodes (one rotation per phase; the larger ones, up to 40 nodes, are NOT part of the family)",
			len(f2), n3, len(big), nb, maxNodes)
	} else {
		f2 := verifC15Shapes(2, 2)
		for i, s := range f2 {
			for rot := 0; rot < 3; rot++ {
				add("shape-plain", s, rot, i*7+rot*3)
			}
			add("shape-nasty", s, i%3, i*7)
		}
		d3 := byDepth(verifC15Shapes(3, 2), 3)
		rng := rand.New(rand.NewSource(seed))
		perm := rng.Perm(len(d3))
		ns := 6
		for i := 0; i < ns && i < len(perm); i++ {
			rot, off := rng.Intn(3), rng.Intn(N)
			add("shape-plain", d3[perm[i]], rot, off)
			add("shape-nasty", d3[perm[i]], rot, off)
		}
		exhaustive = false
		shapeRule = fmt.Sprintf("Shape sweep = all %v unordered shapes of depth<=2 (edges below the top node) and fan-out<=2, each with 3 node-type rotations in phase shape-plain and one in shape-nasty; plus a seeded sample (seed %v) of %v of the %v shapes of depth 3 and fan-out<=2 (random rotation and corpus offset, both phases) -> quick is a subset of the thorough family, exhaustive=false",
			len(f2), seed, ns, len(d3))
	}
	genLen := 2
	if thorough {
		genLen = 3
	}

	rule := fmt.Sprintf("tier=%v. Every tree is built below a fresh group node of one test server (quick: ONE server, plus one second instance for leg (c), for the whole run; thorough: a fresh pair every 150 trees, one pair at a time, because every store read scans all points ever written). "+
		"Node types rotate over {group,variable,device} by preorder index + rotation. Corpus = %v strings (labels: %v); plain sub-corpus = those without YAML-significant or non-ASCII content (%v). "+
		"Values = {0,1,-1.5,1e300,1e-300,float64(MaxInt64),1e6}; benign values = {0,1,-1.5}. Decoration of a node (strings s(k), values v(k)): "+
		"dense = description s(0), value v(0), vcEmptyKey[\"\"] s(1), vcZeroKey[\"0\"] s(2), vcArr[0],[1] s(3),[2] s(4), vcMap[a] s(5),[b] s(6), "+
		"tombstoned (Tombstone 1) vcTomb[\"\"] s(7) and vcArr[3] s(8), edge points role s(9), vcEdge[0], vcEdge[a] s(10), tombstoned edge point vcEdgeTomb s(11); "+
		"medium = description, value, vcMap[a], no edge points; sparse = value + edge point role; bare = nothing; every node also has a unique tag point. "+
		"Cross references: first node holds nodeID->last node (forward; self reference for a single node), nodeID[out1]->id outside the tree, nodeID[none] blank, and a non-nodeID point holding the last node's id; "+
		"last node holds nodeID[back]->first node, nodeID[out1b]->same outside id, nodeID[out2]->second outside id; trees with >2 nodes: a middle node holds a self reference and a tombstoned nodeID->top. "+
		"Every tree has one extra child (with a grandchild in every second case) that is created and then deleted (tombstone edge). "+
		"Phases (factor isolation, because one unparseable scalar makes the whole import fail): "+
		"string sweep = for each corpus string a dense node with a dense child (thorough: also a single dense node) where EVERY text role holds that string, benign values; "+
		"value sweep = the same for each value, plain texts; "+
		"mixed sweep = %v dense single/pair trees with strings and values rolling through the whole corpus (step %v); "+
		"shape-plain = density by (preorder index + offset) mod 4, plain texts, benign values; shape-nasty = same densities, strings and values rolling through the whole corpus / value list. %v. "+
		"Legs per tree: (a) import below another fresh group with preserveIDs=false; (b) DeleteNode(original) then import below the original parent with preserveIDs=true on the same instance (restore); (c) import with preserveIDs=true on a second instance (server.TestServer(\"2\"), started once) below a group node with the original parent's id. "+
		"YAML leg (no server): every corpus string as point text, as point key and as description+edge text, every string of length 1..%v over the %v-symbol alphabet %v as point text and as point key, and the values %v as point value, through yaml.Marshal/yaml.Unmarshal of client.SiotExport (goccy/go-yaml as imported by client/node.go). "+
		"Interference guard: the test servers use fixed ports shared with other users of the machine; a case showing a symptom that a foreign store attached to our NATS port can cause (empty reads, missing nodes or points, foreign write errors, timeouts) is rebuilt from scratch with fresh ids up to 2 more times and only its last run is reported (count: reruns_after_suspected_interference). "+
		"Domain restrictions: valid UTF-8 without control characters other than \\n and \\t; no NaN/Inf (the store refuses NaN); keys \"\" and \"0\" are never both used for one point type (they are the same point); texts <= 2 KB; point Data is not used.",
		tier, N, verifC15Labels(corpus), verifC15Labels(plain), nMixed, mixedStep, shapeRule,
		genLen, len(verifC15Alphabet), strconv.Quote(strings.Join(verifC15Alphabet, "")), fmt.Sprint(verifC15YamlValues))

	res := &verifC15Result{Rule: rule, Tier: tier, Seed: seed, Exhaustive: exhaustive,
		Contracts: "per tree and leg: exactly one node below the import parent; recursively (children matched by unique tag point, which yields the map old id -> new id): same node type; Parent field = id of the imported parent node; " +
			"node points equal as a map (type, key with \"\"=\"0\") -> (value bit-for-bit, text, tombstone), except: top node's description = original + \" (import)\" (no other description may gain it), nodeID points under preserveIDs=false; " +
			"edge points equal as the same kind of map ignoring nodeType and tombstone-0 points; same set of children, deleted child neither in the exported YAML nor below the imported node. " +
			"preserveIDs=false: every id differs from the old one, new ids pairwise distinct and disjoint from the old ids, a nodeID text that was the id of a tree node is that node's new id, a nodeID text outside the tree maps to one non-blank new text everywhere (injective, not a new node id), blank nodeID stays blank, non-nodeID points holding an id are unchanged. " +
			"preserveIDs=true: all ids and nodeID texts identical. Before the legs: the store returns exactly what was built (precondition classes). Origin, time and hash are not compared. " +
			"YAML leg: Unmarshal(Marshal(x)) returns identical text / key / value (bit-for-bit).",
		Legs: "a,b,c"}
	agg := &verifC15Agg{classes: map[string]*verifC15Class{}, res: res, seen: map[[32]byte]bool{}}

	// ---- pure YAML leg
	res.YamlLeg = verifC15YamlLeg(corpus, genLen, agg)

	// ---- run
	for _, cs := range cases {
		h := sha256.Sum256([]byte(verifC15Render(cs.Top, true)))
		if !agg.seen[h] {
			agg.seen[h] = true
			if verifC15Nontrivial(cs, byText) {
				res.Distinct++
			}
		}
		res.Nodes += len(cs.Live) + 1
	}
	step := len(cases) / 5
	if step == 0 {
		step = 1
	}
	for i := 0; i < len(cases) && len(res.Samples) < 5; i += step {
		s := fmt.Sprintf("case %v shape %v: %v", cases[i].Seq, cases[i].Shape, verifC15Render(cases[i].Top, false))
		if len(s) > 700 {
			s = s[:700] + "..."
		}
		res.Samples = append(res.Samples, s)
	}

	// ---- servers and run. Quick: ONE server (plus one second instance for leg (c)) for the whole
	// run. Thorough: the store reads scan every point ever written (no index on node_points.node_id),
	// so the pair of servers is replaced by a fresh pair every `restart` trees to keep the run
	// within its time budget; never more than one pair is alive.
	restart := 0
	if thorough {
		restart = 150
	}
	if s := os.Getenv("VERIF_C15_RESTART"); s != "" {
		if v, err := strconv.Atoi(s); err == nil && v >= 0 {
			restart = v
		}
	}
	second := os.Getenv("VERIF_C15_NOSECOND") == ""
	if !second {
		res.Legs = "a,b"
	}
	progress := os.Getenv("VERIF_C15_PROGRESS") != ""
	tRun := time.Now()
	var legMu sync.Mutex
	runGen := func(gen []*verifC15Case, done int) {
		nc, root, stop, err := verifC15Start()
		if err != nil {
			t.Fatalf("cannot start the test server: %v", err)
		}
		defer stop()
		env := &verifC15Env{nc: nc, root: root.ID, byText: byText, agg: agg}
		if second {
			nc2, root2, stop2, err := verifC15Start("2")
			if err != nil {
				t.Fatalf("cannot start the second test server: %v", err)
			}
			defer stop2()
			env.nc2, env.root2 = nc2, root2.ID
		}
		ch := make(chan *verifC15Case)
		var wg sync.WaitGroup
		for w := 0; w < workers; w++ {
			wg.Add(1)
			go func() {
				defer wg.Done()
				for cs := range ch {
					var recs *verifC15Recs
					var l int
					reruns := 0
					for attempt := 0; ; attempt++ {
						recs = &verifC15Recs{}
						l = verifC15RunCase(env, cs, recs)
						if attempt >= 2 || !recs.suspect() {
							break
						}
						reruns++
						time.Sleep(2 * time.Second)
						cs = verifC15BuildCase(cs.Seq, cs.Phase, cs.Shape, cs.Rot, cs.Off, corpus, plain)
					}
					for _, rec := range recs.list {
						agg.report(rec.seq, rec.size, rec.repro, rec.yamlData, rec.diffs)
					}
					legMu.Lock()
					res.TreeLegs += l
					res.Trees++
					res.Reruns += reruns
					legMu.Unlock()
				}
			}()
		}
		for i, cs := range gen {
			ch <- cs
			if progress && (done+i)%20 == 19 {
				fmt.Fprintf(os.Stderr, "C15 progress: %v/%v cases dispatched, %.1fs (phase %v)\n", done+i+1, len(cases), time.Since(tRun).Seconds(), cs.Phase)
			}
		}
		close(ch)
		wg.Wait()
	}
	if restart <= 0 || restart >= len(cases) {
		runGen(cases, 0)
		res.ServerPairs = 1
	} else {
		for lo := 0; lo < len(cases); lo += restart {
			hi := lo + restart
			if hi > len(cases) {
				hi = len(cases)
			}
			runGen(cases[lo:hi], lo)
			res.ServerPairs++
		}
	}

	// ---- result
	res.Evaluations = res.TreeLegs + res.YamlLeg
	for _, cl := range agg.classes {
		for l := range cl.labels {
			cl.Labels = append(cl.Labels, l)
		}
		sort.Strings(cl.Labels)
		cl.Cases = len(cl.caseSeen)
		res.Classes = append(res.Classes, cl)
	}
	sort.Slice(res.Classes, func(i, j int) bool { return res.Classes[i].Class < res.Classes[j].Class })
	if res.Classes == nil {
		res.Classes = []*verifC15Class{}
	}
	res.Seconds = math.Round(time.Since(start).Seconds()*10) / 10
	js, err := json.Marshal(res)
	if err != nil {
		t.Fatalf("json: %v", err)
	}
	fmt.Printf("C15-RESULT %s\n", js)
	if out := os.Getenv("VERIF_C15_OUT"); out != "" {
		if err := os.WriteFile(out, append(js, '\n'), 0644); err != nil {
			t.Errorf("cannot write %v: %v", out, err)
		}
	}
	if res.Mismatches > 0 {
		t.Fatalf("C15: %v mismatches in %v classes", res.Mismatches, len(res.Classes))
	}
}

func verifC15Labels(c []verifC15Str) string {
	var l []string
	for _, s := range c {
		l = append(l, s.Label)
	}
	return strings.Join(l, ",")
}
