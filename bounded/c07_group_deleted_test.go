package client_test

// Replay for finding D25 (C07): (*Manager).scan returned early when it found no node of its type, before the loop
// that stops the clients of placements that are gone. When the last node(s) of a type disappear from the scanned
// tree without the client's own subscription seeing it (their group is deleted), their clients were never stopped.
// Expected: after the next scan the client of the vanished node is stopped - as it already is when at least one
// other node of the type remains (the control case).

import (
	"testing"
	"time"

	"github.com/nats-io/nats.go"
	"github.com/simpleiot/simpleiot/client"
	"github.com/simpleiot/simpleiot/data"
	"github.com/simpleiot/simpleiot/server"
)

type verifC07GNode struct {
	ID          string `node:"id"`
	Parent      string `node:"parent"`
	Description string `point:"description"`
}

type verifC07GClient struct {
	id      string
	stop    chan struct{}
	stopped chan string
}

func (c *verifC07GClient) Run() error { <-c.stop; return nil }
func (c *verifC07GClient) Stop(_ error) {
	c.stopped <- c.id
	close(c.stop)
}
func (c *verifC07GClient) Points(_ string, _ []data.Point)        {}
func (c *verifC07GClient) EdgePoints(_, _ string, _ []data.Point) {}

func verifC07GroupDeleted(t *testing.T, withSibling bool) {
	nc, root, stop, err := server.TestServer()
	if err != nil {
		t.Fatal("Error starting test server: ", err)
	}
	defer stop()

	group := data.NodeEdge{ID: "ID-group", Type: data.NodeTypeGroup, Parent: root.ID,
		Points: data.Points{{Type: data.PointTypeDescription, Text: "g"}}}
	if err := client.SendNode(nc, group, "test"); err != nil {
		t.Fatal(err)
	}
	if err := client.SendNodeType(nc, verifC07GNode{"ID-x", "ID-group", "x"}, "test"); err != nil {
		t.Fatal(err)
	}
	if withSibling {
		if err := client.SendNodeType(nc, verifC07GNode{"ID-z", root.ID, "z"}, "test"); err != nil {
			t.Fatal(err)
		}
	}

	made := make(chan string, 10)
	stopped := make(chan string, 10)
	m := client.NewManager(nc, func(_ *nats.Conn, config verifC07GNode) client.Client {
		made <- config.ID
		return &verifC07GClient{id: config.ID, stop: make(chan struct{}), stopped: stopped}
	}, nil)
	done := make(chan struct{})
	go func() { _ = m.Run(); close(done) }()
	defer func() {
		m.Stop(nil)
		select {
		case <-done:
		case <-time.After(7 * time.Second):
			t.Error("manager did not stop")
		}
	}()

	want := 1
	if withSibling {
		want = 2
	}
	for i := 0; i < want; i++ {
		select {
		case <-made:
		case <-time.After(15 * time.Second):
			t.Fatal("clients not created")
		}
	}

	// delete the group: ID-x is no longer below the root through live edges
	if err := client.SendEdgePoint(nc, "ID-group", root.ID, data.Point{Type: data.PointTypeTombstone, Value: 1, Origin: "test"}, true); err != nil {
		t.Fatal(err)
	}
	time.Sleep(300 * time.Millisecond)
	// any new node makes the manager scan again (node-type point on up.root.>)
	other := data.NodeEdge{ID: "ID-other", Type: "other", Parent: root.ID,
		Points: data.Points{{Type: data.PointTypeDescription, Text: "o"}}}
	if err := client.SendNode(nc, other, "test"); err != nil {
		t.Fatal(err)
	}

	select {
	case id := <-stopped:
		if id != "ID-x" {
			t.Errorf("client %v was stopped, expected ID-x", id)
		}
	case <-time.After(6 * time.Second):
		t.Errorf("the client of ID-x (its group was deleted) is still running after a rescan (sibling of the same type present: %v)", withSibling)
	}
}

func TestVerifC07GroupDeletedLastNode(t *testing.T)    { verifC07GroupDeleted(t, false) }
func TestVerifC07GroupDeletedWithSibling(t *testing.T) { verifC07GroupDeleted(t, true) }
