package data

// Bounded check of the contract of (*Points).Collapse on the real function (injected with go test -overlay by
// /verif/bin/check C01). Collapse builds its result by iterating over a Go map, which the VC generator does not
// model, so its contract is trusted in the proofs of nodePoints/edgePoints and checked here exhaustively over a
// stated finite domain - labelled bounded, not a proof.
//
// Contract (identity = (Type, key with "" read as "0")):
//   S: every output point is one of the input points (all fields)
//   D: no two output points have the same identity
//   N: for every input point there is an output point of the same identity whose time is not older; if several
//      input points of one identity share the greatest time, the last of them in the batch is kept

import (
	"encoding/json"
	"fmt"
	"os"
	"testing"
	"time"
)

func verifC01Ident(p Point) string {
	k := p.Key
	if k == "" {
		k = "0"
	}
	return fmt.Sprintf("%q/%q", p.Type, k)
}

func TestVerifC01Collapse(t *testing.T) {
	types := []string{"a", "ab", "a0"}
	keys := []string{"", "0", "b", "1"}
	times := []int64{1, 2, 3}
	var alphabet []Point
	for _, ty := range types {
		for _, k := range keys {
			for _, tm := range times {
				alphabet = append(alphabet, Point{Type: ty, Key: k, Time: time.Unix(0, tm)})
			}
		}
	}
	maxLen := 3
	if os.Getenv("VERIF_TIER") == "thorough" {
		maxLen = 4
	}
	evaluations, nontrivial, mismatches := 0, 0, 0
	seen := map[string]bool{}
	var samples, first []string
	check := func(in []Point) {
		evaluations++
		// distinguishing payload: the position in the batch
		for i := range in {
			in[i].Value = float64(i + 1)
			in[i].Text = fmt.Sprint("p", i)
		}
		key := fmt.Sprint(in)
		dup := false
		ids := map[string]int{}
		for _, p := range in {
			ids[verifC01Ident(p)]++
			if ids[verifC01Ident(p)] > 1 {
				dup = true
			}
		}
		if dup && !seen[key] {
			seen[key] = true
			nontrivial++
		}
		orig := append([]Point{}, in...)
		ps := Points(append([]Point{}, in...))
		ps.Collapse()
		bad := ""
		// S
		for _, q := range ps {
			found := false
			for _, p := range orig {
				if q.Type == p.Type && q.Key == p.Key && q.Time.Equal(p.Time) && q.Value == p.Value && q.Text == p.Text {
					found = true
				}
			}
			if !found {
				bad = fmt.Sprintf("S: output point %v is not an input point", q)
			}
		}
		// D
		outIDs := map[string]int{}
		for _, q := range ps {
			outIDs[verifC01Ident(q)]++
			if outIDs[verifC01Ident(q)] > 1 {
				bad = fmt.Sprintf("D: two output points with identity %s", verifC01Ident(q))
			}
		}
		// N
		for id := range ids {
			var want *Point
			for i := range orig {
				p := orig[i]
				if verifC01Ident(p) != id {
					continue
				}
				if want == nil || !p.Time.Before(want.Time) {
					want = &orig[i]
				}
			}
			ok := false
			for _, q := range ps {
				if verifC01Ident(q) == id && q.Time.Equal(want.Time) && q.Value == want.Value {
					ok = true
				}
			}
			if !ok && bad == "" {
				bad = fmt.Sprintf("N: identity %s: expected the newest point %v", id, *want)
			}
		}
		if bad != "" {
			mismatches++
			if len(first) < 10 {
				first = append(first, fmt.Sprintf("in=%v out=%v: %s", orig, []Point(ps), bad))
			}
		} else if dup && len(samples) < 4 {
			samples = append(samples, fmt.Sprintf("in=%v -> out=%v", orig, []Point(ps)))
		}
	}
	var rec func(cur []Point, n int)
	rec = func(cur []Point, n int) {
		if len(cur) == n {
			check(append([]Point{}, cur...))
			return
		}
		for _, p := range alphabet {
			rec(append(cur, p), n)
		}
	}
	for n := 0; n <= maxLen; n++ {
		if n == 4 {
			// length 4: two types only, to keep the enumeration at ~330k batches
			save := alphabet
			alphabet = alphabet[:24]
			rec(nil, n)
			alphabet = save
			continue
		}
		rec(nil, n)
	}
	res := map[string]any{
		"evaluations": evaluations, "distinct_nontrivial": nontrivial, "mismatches": mismatches, "first_mismatches": first,
		"exhaustive": true, "samples": samples,
		"rule": fmt.Sprintf("all batches of length 0..%d over types %v x keys %v x times %v (length 4 over the first two types only); the payload (Value, Text) of each point is its position; non-trivial = the batch has two points of one identity (type, key with \"\" read as \"0\"), distinct batches counted", maxLen, types, keys, times),
		"contracts": "S: output subset of input; D: one output point per identity; N: the newest input point of each identity is kept (the later one on equal times)",
	}
	b, _ := json.Marshal(res)
	fmt.Println("C01-RESULT", string(b))
	if f := os.Getenv("VERIF_C01_OUT"); f != "" {
		os.WriteFile(f, b, 0o644)
	}
	if mismatches > 0 {
		t.Fatalf("%d contract violations of Points.Collapse, e.g. %v", mismatches, first[0])
	}
}
