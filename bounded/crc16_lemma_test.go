package client

// Injected with `go test -overlay` by /verif/bin/check C17 (never written into /repo).
// Complete finite computation on the real github.com/kjx98/crc16 CCITT table:
//  1. the per-byte update is GF(2)-linear in (state, byte) and maps 0 to 0 (all 2^24 inputs);
//  2. with linearity, a corrupted packet d^e is accepted by SerialDecode iff le16(e_crc) == ccitt(e_data)
//     (SerialDecode's contract: accepted non-log packets satisfy le16(d[l-2:]) == ccitt(d[:l-2]));
//  3. for every bit position of a packet of up to maxLen bytes the 16-bit "syndrome" of a single-bit
//     error is computed; all are non-zero and pairwise distinct (1- and 2-bit errors are detected), and
//     every 16 consecutive ones are linearly independent over GF(2) (every burst of <= 16 bits is detected).
// Bit positions are in transmission order: byte by byte, least significant bit first.

import (
	"encoding/json"
	"fmt"
	"os"
	"testing"

	"github.com/kjx98/crc16"
)

func TestVerifCRC16Lemma(t *testing.T) {
	const maxLen = 4094 // bytes, whole packet including the two CRC bytes
	step := func(s uint16, b byte) uint16 { return crc16.Update(s, crc16.CCITTTable, []byte{b}) }
	res := map[string]interface{}{}
	// 1. linearity on all 2^24 inputs, against the XOR of the images of the basis bits
	var basisS [16]uint16
	var basisB [8]uint16
	for i := 0; i < 16; i++ {
		basisS[i] = step(1<<uint(i), 0)
	}
	for i := 0; i < 8; i++ {
		basisB[i] = step(0, 1<<uint(i))
	}
	if step(0, 0) != 0 {
		t.Fatalf("step(0,0) != 0")
	}
	checked := 0
	for s := 0; s < 1<<16; s++ {
		var ls uint16
		for i := 0; i < 16; i++ {
			if s&(1<<uint(i)) != 0 {
				ls ^= basisS[i]
			}
		}
		for b := 0; b < 256; b++ {
			l := ls
			for i := 0; i < 8; i++ {
				if b&(1<<uint(i)) != 0 {
					l ^= basisB[i]
				}
			}
			if step(uint16(s), byte(b)) != l {
				t.Fatalf("update is not linear at state %#x byte %#x", s, b)
			}
			checked++
		}
	}
	res["linearity_inputs_checked"] = checked
	// the library checksum is the fold of step from state 0
	msg := []byte{0x31, 0x32, 0x33, 0x34, 0x35, 0x36, 0x37, 0x38, 0x39}
	var st uint16
	for _, b := range msg {
		st = step(st, b)
	}
	if st != crc16.ChecksumCCITT(msg) {
		t.Fatalf("ChecksumCCITT is not the fold of the per-byte update from 0")
	}
	// 3. syndromes, indexed from the END of the packet: positions 0..15 are the CRC field (little endian:
	// first CRC byte is the low byte), then data bytes from the last to the first.
	n := maxLen * 8
	syn := make([]uint16, 0, n)
	// transmission order is needed for bursts: build the list in transmission order instead.
	// data byte at trailing distance tr (number of data bytes after it), bit k: state after byte (1<<k) and tr zero bytes
	dataBytes := maxLen - 2
	trail := make([][8]uint16, dataBytes) // trail[tr][k]
	for k := 0; k < 8; k++ {
		s := step(0, 1<<uint(k))
		for tr := 0; tr < dataBytes; tr++ {
			trail[tr][k] = s
			s = step(s, 0)
		}
	}
	for i := 0; i < dataBytes; i++ { // i-th data byte from the start
		tr := dataBytes - 1 - i
		for k := 0; k < 8; k++ {
			syn = append(syn, trail[tr][k])
		}
	}
	for j := 0; j < 16; j++ { // CRC field, low byte first, LSB first: a flipped bit j changes le16 by 1<<j
		syn = append(syn, 1<<uint(j))
	}
	seen := map[uint16]int{}
	for p, v := range syn {
		if v == 0 {
			t.Fatalf("single-bit error at bit %d is undetected", p)
		}
		if q, dup := seen[v]; dup {
			t.Fatalf("two-bit error at bits %d and %d is undetected", q, p)
		}
		seen[v] = p
	}
	res["single_and_double_bit_positions"] = len(syn)
	windows := 0
	for p := 0; p+16 <= len(syn); p++ {
		// rank of 16 vectors over GF(2)
		var basis [16]uint16
		rank := 0
		for _, v := range syn[p : p+16] {
			for b := 15; b >= 0 && v != 0; b-- {
				if v&(1<<uint(b)) == 0 {
					continue
				}
				if basis[b] == 0 {
					basis[b] = v
					rank++
					v = 0
				} else {
					v ^= basis[b]
				}
			}
		}
		if rank != 16 {
			t.Fatalf("a burst of <= 16 bits starting at bit %d is undetected", p)
		}
		windows++
	}
	res["burst_windows_checked"] = windows
	res["max_packet_bytes"] = maxLen
	// residual exception: documented subjects that a 1-/2-bit or <=16-bit burst error can turn into "log"
	pad := func(s string) [16]byte { var a [16]byte; copy(a[:], s); return a }
	logp := pad("log")
	var risky []string
	subjects := []string{"", "phr", "ack", "p.a", "p.0", "p.zz", "log2"}
	for _, s := range subjects {
		a := pad(s)
		first, last, weight := -1, -1, 0
		for i := 0; i < 16; i++ {
			x := a[i] ^ logp[i]
			for k := 0; k < 8; k++ {
				if x&(1<<uint(k)) != 0 {
					if first < 0 {
						first = i*8 + k
					}
					last = i*8 + k
					weight++
				}
			}
		}
		if weight > 0 && (weight <= 2 || last-first < 16) {
			risky = append(risky, s)
		}
	}
	res["subjects_checked_against_log"] = subjects
	res["subjects_one_error_away_from_log"] = risky
	b, _ := json.Marshal(res)
	if out := os.Getenv("VERIF_CRC_OUT"); out != "" {
		os.WriteFile(out, b, 0o644)
	}
	fmt.Println("CRC16-LEMMA", string(b))
}
