package store

// Bounded check harness for property C03 ("stored hashes always equal the Merkle hash of
// current content"). Exhaustive enumeration / seeded sampling over a stated finite domain,
// NOT a proof. Injected into /repo/store with `go test -overlay` (see /verif/bounded/C03_NOTES.md).
//
// Every top-level identifier is prefixed verifC03.

import (
	"encoding/binary"
	"encoding/hex"
	"encoding/json"
	"fmt"
	"hash/crc32"
	"io"
	"log"
	"math"
	"math/rand"
	"os"
	"os/exec"
	"path/filepath"
	"runtime"
	"sort"
	"strconv"
	"strings"
	"sync"
	"testing"
	"time"

	"github.com/simpleiot/simpleiot/data"
)

const verifC03Contracts = "Inv: stored edge hash == XOR(CRC(node points), CRC(edge points), child edge hashes) after every accepted write; refused writes change no hash"

// ---------------------------------------------------------------------------------------------
// independent definition of the hash (docs/ref/sync.md "Node hash", "Point CRC")

// verifC03CRC is the documented point checksum: crc32 (IEEE) over
// little-endian UnixNano time ++ type ++ key ++ text ++ little-endian IEEE-754 bits of value;
// node-type points are not stored and count as 0.
func verifC03CRC(p data.Point) uint32 {
	if p.Type == "nodeType" {
		return 0
	}
	b := make([]byte, 0, 16+len(p.Type)+len(p.Key)+len(p.Text))
	var d [8]byte
	binary.LittleEndian.PutUint64(d[:], uint64(p.Time.UnixNano()))
	b = append(b, d[:]...)
	b = append(b, p.Type...)
	b = append(b, p.Key...)
	b = append(b, p.Text...)
	binary.LittleEndian.PutUint64(d[:], math.Float64bits(p.Value))
	b = append(b, d[:]...)
	return crc32.ChecksumIEEE(b)
}

// ---------------------------------------------------------------------------------------------
// operation alphabet

const (
	verifC03KMk    = iota // create node X under parent P (also: mirror, re-delivery of the creation)
	verifC03KMkU          // mirror the pre-existing (populated) admin user node under P
	verifC03KNp           // node point on X
	verifC03KEp           // edge point (role) on edge (X,P)
	verifC03KDel          // tombstone 1 on edge (X,P)
	verifC03KUndel        // tombstone 0 on edge (X,P)
	verifC03NKinds
)

var verifC03KindNames = [verifC03NKinds]string{"mk", "mkU", "np", "ep", "del", "undel"}

// node indexes
const (
	verifC03R = iota // root node created by NewSqliteDb
	verifC03A
	verifC03B
	verifC03C
	verifC03U // admin user created by NewSqliteDb under the root
	verifC03D // fourth extra node, only used by the "deep diamond" shape of the shapes part
	verifC03NNodes
)

var verifC03NodeNames = [verifC03NNodes]string{"R", "A", "B", "C", "U", "D"}

// All explicit timestamps lie in the future of the wall clock, because the root and admin edges
// created by NewSqliteDb carry time.Now() and writes on them must not be out of date by accident.
var verifC03T = [3]time.Time{{}, time.Unix(4102444800, 0), time.Unix(4102444801, 0)} // T1 < T2 (year 2100)

type verifC03Op struct {
	kind  int
	x, p  int // node, parent (p = -1 for node points)
	typ   string
	ts    int // 1 or 2
	val   float64
	text  string
	name  string
	ex    bool // member of the exhaustive alphabet
	dOnly bool // letter about node D: only used on top of the deep-diamond shape (not sampled, not in the exhaustive alphabet)
}

func verifC03Alphabet() []verifC03Op {
	var al []verifC03Op
	add := func(o verifC03Op) { al = append(al, o) }
	abc := []int{verifC03A, verifC03B, verifC03C}
	rabc := []int{verifC03R, verifC03A, verifC03B, verifC03C}

	// mk(X,P)
	for _, x := range abc {
		for _, p := range rabc {
			if p == x {
				continue
			}
			add(verifC03Op{kind: verifC03KMk, x: x, p: p, ex: true,
				name: fmt.Sprintf("mk(%s under %s)", verifC03NodeNames[x], verifC03NodeNames[p])})
		}
	}
	// mkU(P)
	for _, p := range abc {
		add(verifC03Op{kind: verifC03KMkU, x: verifC03U, p: p, ex: p == verifC03A,
			name: fmt.Sprintf("mkU(U under %s)", verifC03NodeNames[p])})
	}
	// np(X, typ, ts, v)
	for _, x := range rabc {
		for _, typ := range []string{data.PointTypeValue, data.PointTypeDescription} {
			for ts := 1; ts <= 2; ts++ {
				for v := 1; v <= 2; v++ {
					o := verifC03Op{kind: verifC03KNp, x: x, p: -1, typ: typ, ts: ts}
					if typ == data.PointTypeValue {
						o.val = float64(v)
						o.name = fmt.Sprintf("np(%s value@T%d=%d)", verifC03NodeNames[x], ts, v)
					} else {
						o.text = fmt.Sprintf("d%d", v)
						o.name = fmt.Sprintf("np(%s description@T%d=%q)", verifC03NodeNames[x], ts, o.text)
					}
					if x == verifC03A {
						// A: first write, update, same-time rewrite, out-of-date, second type
						o.ex = (typ == data.PointTypeValue && !(ts == 1 && v == 2)) ||
							(typ == data.PointTypeDescription && ts == 2 && v == 1)
					} else {
						o.ex = typ == data.PointTypeValue && ts == 2 && v == 1
					}
					add(o)
				}
			}
		}
	}
	// edges that can carry edge points / tombstones
	type xp struct{ x, p int }
	var eds []xp
	for _, x := range abc {
		for _, p := range rabc {
			if p != x {
				eds = append(eds, xp{x, p})
			}
		}
	}
	eds = append(eds, xp{verifC03U, verifC03R}, xp{verifC03U, verifC03A})
	for _, e := range eds {
		for ts := 1; ts <= 2; ts++ {
			for _, txt := range []string{"admin", "user"} {
				o := verifC03Op{kind: verifC03KEp, x: e.x, p: e.p, typ: data.PointTypeRole, ts: ts, text: txt,
					name: fmt.Sprintf("ep(%s under %s role@T%d=%q)", verifC03NodeNames[e.x], verifC03NodeNames[e.p], ts, txt)}
				switch {
				case e.x == verifC03U && e.p == verifC03A:
					o.ex = false
				case ts == 2 && txt == "admin":
					o.ex = true
				case e.x == verifC03A && e.p == verifC03R && ts == 1 && txt == "user":
					o.ex = true
				}
				add(o)
			}
		}
	}
	for _, e := range eds {
		add(verifC03Op{kind: verifC03KDel, x: e.x, p: e.p, ts: 2, val: 1,
			ex:   !(e.x == verifC03U && e.p == verifC03A),
			name: fmt.Sprintf("del(%s under %s)", verifC03NodeNames[e.x], verifC03NodeNames[e.p])})
	}
	for _, e := range eds {
		add(verifC03Op{kind: verifC03KUndel, x: e.x, p: e.p, ts: 2, val: 0,
			ex:   e.x != verifC03U,
			name: fmt.Sprintf("undel(%s under %s)", verifC03NodeNames[e.x], verifC03NodeNames[e.p])})
	}
	// letters about node D, APPENDED so that the indexes of all other letters (and with them the sampled histories) stay the same
	dn := verifC03NodeNames[verifC03D]
	for _, p := range []int{verifC03B, verifC03C} {
		add(verifC03Op{kind: verifC03KMk, x: verifC03D, p: p, dOnly: true,
			name: fmt.Sprintf("mk(%s under %s)", dn, verifC03NodeNames[p])})
	}
	add(verifC03Op{kind: verifC03KNp, x: verifC03D, p: -1, typ: data.PointTypeValue, ts: 2, val: 1, dOnly: true,
		name: fmt.Sprintf("np(%s value@T2=1)", dn)})
	add(verifC03Op{kind: verifC03KNp, x: verifC03D, p: -1, typ: data.PointTypeValue, ts: 1, val: 2, dOnly: true,
		name: fmt.Sprintf("np(%s value@T1=2)", dn)})
	add(verifC03Op{kind: verifC03KEp, x: verifC03D, p: verifC03B, typ: data.PointTypeRole, ts: 2, text: "admin", dOnly: true,
		name: fmt.Sprintf("ep(%s under B role@T2=\"admin\")", dn)})
	add(verifC03Op{kind: verifC03KDel, x: verifC03D, p: verifC03B, ts: 2, val: 1, dOnly: true,
		name: fmt.Sprintf("del(%s under B)", dn)})
	add(verifC03Op{kind: verifC03KUndel, x: verifC03D, p: verifC03B, ts: 2, val: 0, dOnly: true,
		name: fmt.Sprintf("undel(%s under B)", dn)})
	add(verifC03Op{kind: verifC03KMkU, x: verifC03U, p: verifC03D, dOnly: true,
		name: fmt.Sprintf("mkU(U under %s)", dn)})
	if len(al) > 250 {
		panic("alphabet too large for uint8 letters")
	}
	return al
}

// ---------------------------------------------------------------------------------------------
// named graph shapes for the shapes part: built first on the fresh database, then histories run on top

type verifC03Shape struct {
	idx     int
	name    string
	steps   []string // letter names
	letters []uint8
	useD    bool
}

func verifC03Shapes(al []verifC03Op) []*verifC03Shape {
	shapes := []*verifC03Shape{
		{name: "chain R>A>B>C", steps: []string{"mk(A under R)", "mk(B under A)", "mk(C under B)"}},
		{name: "mirror: C under A and under B, A and B under R (diamond joining at the root edge)",
			steps: []string{"mk(A under R)", "mk(B under R)", "mk(C under A)", "mk(C under B)"}},
		{name: "deep diamond R>A, A>B, A>C, B>D, C>D (joins at the edge A under R)", useD: true,
			steps: []string{"mk(A under R)", "mk(B under A)", "mk(C under A)", "mk(D under B)", "mk(D under C)"}},
		{name: "populated subtree attached late (A and B points-first, B under A edge-first, then A under R)",
			steps: []string{"np(A value@T1=1)", "np(B value@T2=1)", "mk(B under A)", "np(A description@T2=\"d1\")", "mk(A under R)"}},
		{name: "node with a deleted child (B under A deleted)",
			steps: []string{"mk(A under R)", "mk(B under A)", "np(B value@T2=1)", "del(B under A)"}},
		{name: "deleted and re-created placement (B under A deleted, then undeleted)",
			steps: []string{"mk(A under R)", "mk(B under A)", "np(B value@T2=1)", "del(B under A)", "undel(B under A)"}},
		{name: "node mirrored three times (C under R, under A and under B)",
			steps: []string{"mk(A under R)", "mk(B under R)", "mk(C under R)", "mk(C under A)", "mk(C under B)"}},
	}
	byName := map[string]int{}
	for i, o := range al {
		byName[o.name] = i
	}
	for i, sh := range shapes {
		sh.idx = i
		for _, st := range sh.steps {
			li, ok := byName[st]
			if !ok {
				panic("shape step is not a letter: " + st)
			}
			sh.letters = append(sh.letters, uint8(li))
		}
	}
	return shapes
}

func (sh *verifC03Shape) tag() string { return fmt.Sprintf("S%d/", sh.idx) }

// ---------------------------------------------------------------------------------------------
// database access

type verifC03IDs [verifC03NNodes]string

func (ids *verifC03IDs) name(id string) string {
	for i, s := range ids {
		if s == id {
			return verifC03NodeNames[i]
		}
	}
	return id
}

// verifC03Time: T1/T2 plus a nanosecond offset that is specific to the node (node points) or the
// edge (edge points), so that points on different nodes or edges never have equal checksums
// (equal checksums cancel in the XOR fold and could hide an error).
func verifC03Time(o verifC03Op, ts int) time.Time {
	off := (o.x+1)*16 + (o.p + 1)
	return verifC03T[ts].Add(time.Duration(off))
}

func verifC03Apply(sdb *DbSqlite, ids *verifC03IDs, o verifC03Op) error {
	switch o.kind {
	case verifC03KMk:
		return sdb.edgePoints(ids[o.x], ids[o.p], data.Points{
			{Type: data.PointTypeTombstone, Value: 0, Time: verifC03Time(o, 1)},
			{Type: data.PointTypeNodeType, Text: data.NodeTypeGroup},
		})
	case verifC03KMkU:
		return sdb.edgePoints(ids[o.x], ids[o.p], data.Points{
			{Type: data.PointTypeTombstone, Value: 0, Time: verifC03Time(o, 1)},
			{Type: data.PointTypeNodeType, Text: data.NodeTypeUser},
		})
	case verifC03KNp:
		return sdb.nodePoints(ids[o.x], data.Points{
			{Type: o.typ, Time: verifC03Time(o, o.ts), Value: o.val, Text: o.text},
		})
	case verifC03KEp:
		return sdb.edgePoints(ids[o.x], ids[o.p], data.Points{
			{Type: o.typ, Time: verifC03Time(o, o.ts), Text: o.text},
		})
	case verifC03KDel, verifC03KUndel:
		return sdb.edgePoints(ids[o.x], ids[o.p], data.Points{
			{Type: data.PointTypeTombstone, Time: verifC03Time(o, o.ts), Value: o.val},
		})
	}
	return fmt.Errorf("unknown op kind")
}

type verifC03Edge struct {
	up, down string
	stored   uint32 // hash column of the edges row == NodeEdge.Hash reported by getNodes
	own      uint32 // XOR of my CRC over node points and edge points read back with getNodes
	expected uint32 // own ^ XOR of the STORED hashes of all child edges (what verifyNodeHashes compares)
	calc     uint32 // NodeEdge.CalcHash over the children getNodes reports (the store's own verification)
	calcDone bool
	deep     uint32 // own ^ XOR of the RECOMPUTED (deep) hashes of all child edges (from-scratch Merkle)
	deepDone bool
}

type verifC03Snap struct {
	dump  string                   // canonical dump of the whole database content
	edges map[string]*verifC03Edge // key up + "\x00" + down
	keys  []string                 // sorted
	fault string                   // structural problem found while reading (duplicate edge rows, ...)
}

func verifC03Key(up, down string) string { return up + "\x00" + down }

func verifC03Dump(sdb *DbSqlite) (string, error) {
	var sb strings.Builder
	sb.WriteString("memroot=" + sdb.meta.RootID + "\n")
	for _, q := range []string{
		"SELECT id, version, root_id FROM meta ORDER BY id",
		"SELECT * FROM edges ORDER BY id",
		"SELECT * FROM node_points ORDER BY id",
		"SELECT * FROM edge_points ORDER BY id",
	} {
		rows, err := sdb.db.Query(q)
		if err != nil {
			return "", err
		}
		cols, err := rows.Columns()
		if err != nil {
			rows.Close()
			return "", err
		}
		sb.WriteString("#" + q + "\n")
		vals := make([]any, len(cols))
		ptrs := make([]any, len(cols))
		for i := range vals {
			ptrs[i] = &vals[i]
		}
		for rows.Next() {
			if err := rows.Scan(ptrs...); err != nil {
				rows.Close()
				return "", err
			}
			for _, v := range vals {
				fmt.Fprintf(&sb, "%T:%v|", v, v)
			}
			sb.WriteByte('\n')
		}
		if err := rows.Close(); err != nil {
			return "", err
		}
	}
	return sb.String(), nil
}

// verifC03Snapshot reads the whole store back and recomputes every edge hash independently.
func verifC03Snapshot(sdb *DbSqlite) (*verifC03Snap, error) {
	s := &verifC03Snap{edges: map[string]*verifC03Edge{}}
	var err error
	if s.dump, err = verifC03Dump(sdb); err != nil {
		return nil, err
	}
	// ALL rows of the edges table, tombstoned and unreachable ones included
	all, err := sdb.edges(nil, "SELECT * FROM edges")
	if err != nil {
		return nil, err
	}
	downs := map[string]bool{}
	var downList []string
	for _, e := range all {
		k := verifC03Key(e.Up, e.Down)
		if _, dup := s.edges[k]; dup {
			s.fault = "duplicate edge row"
		}
		s.edges[k] = &verifC03Edge{up: e.Up, down: e.Down, stored: e.Hash}
		if !downs[e.Down] {
			downs[e.Down] = true
			downList = append(downList, e.Down)
		}
	}
	// read path: every placement of every node, deleted ones included
	seen := 0
	for _, d := range downList {
		nes, err := sdb.getNodes(nil, "all", d, "", true)
		if err != nil {
			return nil, err
		}
		for _, ne := range nes {
			e := s.edges[verifC03Key(ne.Parent, ne.ID)]
			if e == nil {
				s.fault = "getNodes reports an edge that is not in the edges table"
				continue
			}
			seen++
			if ne.Hash != e.stored {
				s.fault = "getNodes hash differs from edges.hash"
			}
			var own uint32
			for _, p := range ne.Points {
				own ^= verifC03CRC(p)
			}
			for _, p := range ne.EdgePoints {
				own ^= verifC03CRC(p)
			}
			e.own = own
			// what the store's own verification (verifyNodeHashes) computes for this placement
			kids, err := sdb.getNodes(nil, ne.ID, "all", "", true)
			if err != nil {
				return nil, err
			}
			e.calc, e.calcDone = ne.CalcHash(kids), true
		}
	}
	if seen != len(all) && s.fault == "" {
		s.fault = "getNodes does not report every edge row"
	}
	children := map[string][]*verifC03Edge{} // by up
	for k, e := range s.edges {
		s.keys = append(s.keys, k)
		children[e.up] = append(children[e.up], e)
	}
	sort.Strings(s.keys)
	var deep func(e *verifC03Edge, depth int) uint32
	deep = func(e *verifC03Edge, depth int) uint32 {
		if e.deepDone {
			return e.deep
		}
		if depth > 64 {
			s.fault = "cycle in edges table"
			return 0
		}
		h := e.own
		for _, c := range children[e.down] {
			h ^= deep(c, depth+1)
		}
		e.deep, e.deepDone = h, true
		return h
	}
	for _, e := range s.edges {
		h := e.own
		for _, c := range children[e.down] {
			h ^= c.stored
		}
		e.expected = h
		if e.calcDone && e.calc != e.expected && s.fault == "" {
			s.fault = "NodeEdge.CalcHash differs from the documented definition (XOR of point CRCs and child hashes)"
		}
		deep(e, 0)
	}
	return s, nil
}

func (s *verifC03Snap) placements(down string) int {
	n := 0
	for _, e := range s.edges {
		if e.down == down {
			n++
		}
	}
	return n
}

func (s *verifC03Snap) childCount(up string) int {
	n := 0
	for _, e := range s.edges {
		if e.up == up {
			n++
		}
	}
	return n
}

// ---------------------------------------------------------------------------------------------
// accumulation of results

type verifC03Class struct {
	Class        string   `json:"class"`
	History      string   `json:"history"`
	Edge         string   `json:"edge"`
	Stored       uint32   `json:"stored"`
	Expected     uint32   `json:"expected"`
	ExpectedDeep uint32   `json:"expected_deep"`
	WrongEdges   string   `json:"edges_whose_error_changed"`
	PrefixClean  bool     `json:"prefix_clean"`
	Count        int64    `json:"count"`
	OpKinds      []string `json:"op_kinds"`
	Letters      string   `json:"letters_hex"`
}

type verifC03Acc struct {
	Evals      int64                     `json:"evals"`
	EdgeChecks int64                     `json:"edge_checks"`
	Accepted   int64                     `json:"accepted"`
	Refused    int64                     `json:"refused"`
	Noops      int64                     `json:"noops"`
	Runs       int64                     `json:"runs"`
	Nontrivial map[string]struct{}       `json:"nontrivial"` // keys: hex letters
	Violating  map[string]struct{}       `json:"violating"`  // keys: hex letters
	Classes    map[string]*verifC03Class `json:"classes"`
	Samples    map[int]string            `json:"samples"` // sample index -> rendering
	Errs       []string                  `json:"errs"`
	Extend     []string                  `json:"extend"` // hex letters of histories to extend in the next level
}

func verifC03NewAcc() *verifC03Acc {
	return &verifC03Acc{Nontrivial: map[string]struct{}{}, Violating: map[string]struct{}{},
		Classes: map[string]*verifC03Class{}, Samples: map[int]string{}}
}

func verifC03Shorter(a, b string) bool {
	if len(a) != len(b) {
		return len(a) < len(b)
	}
	return a < b
}

func (a *verifC03Acc) addClass(c *verifC03Class) {
	old := a.Classes[c.Class]
	if old == nil {
		a.Classes[c.Class] = c
		return
	}
	kinds := map[string]bool{}
	for _, k := range old.OpKinds {
		kinds[k] = true
	}
	for _, k := range c.OpKinds {
		kinds[k] = true
	}
	cnt := old.Count + c.Count
	win := old
	if verifC03Shorter(c.Letters, old.Letters) {
		win = c
	}
	win.Count = cnt
	win.OpKinds = win.OpKinds[:0]
	for k := range kinds {
		win.OpKinds = append(win.OpKinds, k)
	}
	sort.Strings(win.OpKinds)
	a.Classes[c.Class] = win
}

func (a *verifC03Acc) merge(b *verifC03Acc) {
	a.Evals += b.Evals
	a.EdgeChecks += b.EdgeChecks
	a.Accepted += b.Accepted
	a.Refused += b.Refused
	a.Noops += b.Noops
	a.Runs += b.Runs
	for k := range b.Nontrivial {
		a.Nontrivial[k] = struct{}{}
	}
	for k := range b.Violating {
		a.Violating[k] = struct{}{}
	}
	for _, c := range b.Classes {
		a.addClass(c)
	}
	for i, s := range b.Samples {
		a.Samples[i] = s
	}
	a.Errs = append(a.Errs, b.Errs...)
	a.Extend = append(a.Extend, b.Extend...)
}

func verifC03Render(al []verifC03Op, hist []uint8, marks []byte) string {
	var parts []string
	for i, l := range hist {
		s := al[l].name
		if i < len(marks) {
			switch marks[i] {
			case 'r':
				s += " [refused]"
			case 'n':
				s += " [accepted, no change]"
			}
		}
		parts = append(parts, s)
	}
	return strings.Join(parts, "; ")
}

// ---------------------------------------------------------------------------------------------
// random generator for the sampled part

type verifC03Gen struct {
	rng    *rand.Rand
	n      int
	byKind [verifC03NKinds][]int
}

func (g *verifC03Gen) pick(al []verifC03Op, ids *verifC03IDs, s *verifC03Snap) uint8 {
	r := g.rng.Float64()
	var kind int
	switch {
	case r < 0.30:
		kind = verifC03KMk
	case r < 0.35:
		kind = verifC03KMkU
	case r < 0.55:
		kind = verifC03KNp
	case r < 0.80:
		kind = verifC03KEp
	case r < 0.90:
		kind = verifC03KDel
	default:
		kind = verifC03KUndel
	}
	cands := g.byKind[kind]
	if kind >= verifC03KEp && g.rng.Float64() < 0.85 {
		var live []int
		for _, li := range cands {
			if _, ok := s.edges[verifC03Key(ids[al[li].p], ids[al[li].x])]; ok {
				live = append(live, li)
			}
		}
		if len(live) == 0 {
			cands = g.byKind[verifC03KMk]
		} else {
			cands = live
		}
	}
	return uint8(cands[g.rng.Intn(len(cands))])
}

// ---------------------------------------------------------------------------------------------
// one history on one fresh database

// verifC03RunHistory executes one history on a fresh database. fixed != nil: the history to run;
// gen != nil: the history is drawn step by step. Returns the letters, the per-step marks
// ('a' accepted and changed the database, 'n' accepted without change, 'r' refused).
//
// shape != nil: fixed starts with the letters of the shape (the prefix, not counted as history). In the run of the
// bare shape the invariant is checked after every prefix step; in runs with a suffix the prefix is replayed and the
// full check starts after its last step (then after every write of the suffix).
func verifC03RunHistory(dir string, seq int64, al []verifC03Op, fixed []uint8, gen *verifC03Gen,
	acc *verifC03Acc, shape *verifC03Shape) (hist []uint8, marks []byte, err error) {

	pre, tag := 0, ""
	if shape != nil {
		pre, tag = len(shape.letters), shape.tag()
	}
	// keyAt names the executed history up to and including step i
	keyAt := func(i int) string {
		if i < pre {
			return fmt.Sprintf("%sprefix%d", tag, i+1)
		}
		return tag + hex.EncodeToString(hist[pre:i+1])
	}
	render := func() string {
		if shape == nil {
			return verifC03Render(al, hist, marks)
		}
		k := pre
		if len(hist) < k {
			k = len(hist)
		}
		return "[shape " + shape.name + ": " + verifC03Render(al, hist[:k], marks[:k]) + "] " +
			verifC03Render(al, hist[k:], marks[k:])
	}

	f := filepath.Join(dir, fmt.Sprintf("h%d.db", seq))
	sdb, err := NewSqliteDb(f, "")
	if err != nil {
		return nil, nil, fmt.Errorf("NewSqliteDb: %v", err)
	}
	defer func() {
		sdb.Close()
		os.Remove(f)
		os.Remove(f + "-wal")
		os.Remove(f + "-shm")
	}()
	acc.Runs++

	var ids verifC03IDs
	ids[verifC03R] = sdb.rootNodeID()
	ids[verifC03A], ids[verifC03B], ids[verifC03C], ids[verifC03D] = "verifC03-A", "verifC03-B", "verifC03-C", "verifC03-D"
	us, err := sdb.edges(nil, "SELECT * FROM edges WHERE type=?", data.NodeTypeUser)
	if err != nil || len(us) != 1 {
		return nil, nil, fmt.Errorf("admin user lookup: %v (%d rows)", err, len(us))
	}
	ids[verifC03U] = us[0].Down

	edgeName := func(e *verifC03Edge) string {
		return ids.name(e.down) + " under " + ids.name(e.up)
	}

	cur, err := verifC03Snapshot(sdb)
	if err != nil {
		return nil, nil, err
	}
	// the initial database must satisfy Inv too
	acc.Evals++
	acc.EdgeChecks += int64(len(cur.edges))
	for _, k := range cur.keys {
		e := cur.edges[k]
		if e.stored != e.expected || cur.fault != "" {
			acc.Violating[""] = struct{}{}
			acc.addClass(&verifC03Class{Class: "initial database (NewSqliteDb) " + cur.fault, History: "(empty)",
				Edge: edgeName(e), Stored: e.stored, Expected: e.expected, ExpectedDeep: e.deep, Count: 1,
				PrefixClean: true, OpKinds: []string{"init"}})
			break
		}
	}

	n := len(fixed)
	if gen != nil {
		n = gen.n
	}
	nontrivial := false
	for step := 0; step < n; step++ {
		var li uint8
		if gen != nil {
			li = gen.pick(al, &ids, cur)
		} else {
			li = fixed[step]
		}
		op := al[li]
		hist = append(hist, li)
		werr := verifC03Apply(sdb, &ids, op)
		if shape != nil && len(fixed) > pre && step < pre-1 {
			// replay of a shape prefix below a suffix: checked step by step in the run of the bare shape
			if werr != nil {
				return hist, marks, fmt.Errorf("shape %q: prefix step %s refused: %v", shape.name, op.name, werr)
			}
			marks = append(marks, 'a')
			continue
		}
		next, err := verifC03Snapshot(sdb)
		if err != nil {
			return hist, marks, err
		}
		acc.Evals++
		if werr != nil {
			acc.Refused++
			marks = append(marks, 'r')
			if next.dump != cur.dump {
				acc.Violating[keyAt(step)] = struct{}{}
				c := &verifC03Class{Class: "refused write changed the database", Count: 1,
					History: render(), OpKinds: []string{verifC03KindNames[op.kind]},
					Letters: keyAt(step), WrongEdges: "error was: " + werr.Error()}
				for _, k := range next.keys {
					if o := cur.edges[k]; o == nil || o.stored != next.edges[k].stored {
						e := next.edges[k]
						c.Edge, c.Stored, c.Expected, c.ExpectedDeep = edgeName(e), e.stored, e.expected, e.deep
						break
					}
				}
				acc.addClass(c)
			}
			cur = next
			continue
		}
		acc.Accepted++
		acc.EdgeChecks += int64(len(next.edges))
		if next.dump != cur.dump {
			marks = append(marks, 'a')
		} else {
			marks = append(marks, 'n')
			acc.Noops++
		}
		if op.kind >= verifC03KNp && step >= pre {
			nontrivial = true
		}

		// Inv on every edge row
		bad := next.fault != ""
		prefixClean := cur.fault == ""
		var introduced []*verifC03Edge
		for _, k := range next.keys {
			e := next.edges[k]
			errNow := e.stored ^ e.expected
			if errNow != 0 {
				bad = true
			}
			var errBefore uint32
			if o := cur.edges[k]; o != nil {
				errBefore = o.stored ^ o.expected
			}
			if errNow != errBefore {
				introduced = append(introduced, e)
			}
		}
		for _, k := range cur.keys {
			if o := cur.edges[k]; o.stored != o.expected {
				prefixClean = false
			}
		}
		if bad {
			acc.Violating[keyAt(step)] = struct{}{}
		}
		if next.fault != "" && next.fault != cur.fault {
			acc.addClass(&verifC03Class{Class: "structure: " + next.fault, Count: 1, Letters: keyAt(step),
				History: render(), OpKinds: []string{verifC03KindNames[op.kind]},
				PrefixClean: prefixClean})
		}
		// in the breadth-first parts the prefix of a run was classified by its own earlier run
		if len(introduced) > 0 && (fixed == nil || step == n-1 || (shape != nil && len(fixed) == pre)) {
			// classification from the shape BEFORE the write
			var class string
			x := ids[op.x]
			pl := cur.placements(x)
			ch := cur.childCount(x)
			switch {
			case op.kind == verifC03KNp:
				switch {
				case pl == 0:
					class = "node point on a node without any edge"
				case pl == 1:
					class = "node point on a node with one placement"
				default:
					class = "node point on a node with several placements"
				}
			default:
				_, existed := cur.edges[verifC03Key(ids[op.p], x)]
				if existed {
					if pl >= 2 {
						class = "edge point (role or tombstone) on one placement of a node that has several parents (mirrored node)"
					} else {
						class = "edge point on the only placement of a node"
					}
				} else {
					switch {
					case pl >= 1 && ch >= 1:
						class = "new edge for a node that is already placed elsewhere and already has child edges (mirror of a populated subtree)"
					case pl >= 1:
						class = "new edge for a node that is already placed elsewhere (mirror creation)"
					case ch >= 1:
						class = "new edge above a node that already has child edges (populated subtree)"
					default:
						class = "new edge for a node without other placements or children"
					}
				}
			}
			// is a wrong edge reached from the written node/edge along several upstream paths (diamond)?
			var walks func(node string, target *verifC03Edge, depth int) int
			walks = func(node string, target *verifC03Edge, depth int) int {
				if depth > 64 {
					return 0
				}
				n := 0
				for _, f := range next.edges {
					if f.down == node {
						if f == target {
							n++
						}
						n += walks(f.up, target, depth+1)
					}
				}
				return n
			}
			for _, e := range introduced {
				var n int
				if op.kind == verifC03KNp {
					n = walks(x, e, 0)
				} else {
					n = walks(ids[op.p], e, 0)
				}
				if n >= 2 {
					class += "; a wrong edge lies above a diamond (reached along several upstream paths from the write)"
					break
				}
			}
			var names []string
			for _, e := range introduced {
				names = append(names, fmt.Sprintf("%s: stored %d expected %d (from-scratch %d)",
					edgeName(e), e.stored, e.expected, e.deep))
			}
			sort.Strings(names)
			first := introduced[0]
			for _, e := range introduced {
				if edgeName(e) < edgeName(first) {
					first = e
				}
			}
			acc.addClass(&verifC03Class{Class: class, Count: 1, Letters: keyAt(step),
				History: render(), Edge: edgeName(first),
				Stored: first.stored, Expected: first.expected, ExpectedDeep: first.deep,
				WrongEdges: strings.Join(names, " | "), PrefixClean: prefixClean,
				OpKinds: []string{verifC03KindNames[op.kind]}})
		}
		cur = next
	}
	if nontrivial {
		acc.Nontrivial[keyAt(len(hist)-1)] = struct{}{}
	}
	return hist, marks, nil
}

// ---------------------------------------------------------------------------------------------

func verifC03EnvInt(name string, def int) int {
	if s := os.Getenv(name); s != "" {
		if v, err := strconv.Atoi(s); err == nil {
			return v
		}
	}
	return def
}

// verifC03Batch is a unit of work: a list of fixed histories (breadth-first part) and/or a range
// of sample indexes (sampled part). It is what a child process receives.
type verifC03Batch struct {
	Hists      []string `json:"hists"` // hex letters
	SampleFrom int      `json:"sample_from"`
	SampleTo   int      `json:"sample_to"`
	SampleStep int      `json:"sample_step"`
	Seed       int64    `json:"seed"`
	SampleLens []int    `json:"sample_lens"`
	MaxLen     int      `json:"max_len"`
}

// verifC03RunBatch runs a batch in this process with `workers` goroutines.
func verifC03RunBatch(dir string, al []verifC03Op, b *verifC03Batch, workers int) *verifC03Acc {
	type task struct {
		hist      []uint8
		sampleIdx int // -1: fixed history
		shape     *verifC03Shape
	}
	shapes := verifC03Shapes(al)
	var tasks []task
	for _, h := range b.Hists {
		var sh *verifC03Shape
		if strings.HasPrefix(h, "S") { // "S<shape index>/<hex suffix>"
			i := strings.Index(h, "/")
			n, err := strconv.Atoi(h[1:i])
			if err != nil {
				panic(err)
			}
			sh, h = shapes[n], h[i+1:]
		}
		raw, err := hex.DecodeString(h)
		if err != nil {
			panic(err)
		}
		if sh != nil {
			raw = append(append([]uint8{}, sh.letters...), raw...)
		}
		tasks = append(tasks, task{hist: raw, sampleIdx: -1, shape: sh})
	}
	if b.SampleStep > 0 {
		for i := b.SampleFrom; i < b.SampleTo; i += b.SampleStep {
			tasks = append(tasks, task{sampleIdx: i})
		}
	}
	if workers < 1 {
		workers = 1
	}
	accs := make([]*verifC03Acc, workers)
	ch := make(chan task, 1024)
	var wg sync.WaitGroup
	var seq int64
	var seqMu sync.Mutex
	for w := 0; w < workers; w++ {
		accs[w] = verifC03NewAcc()
		wg.Add(1)
		go func(acc *verifC03Acc) {
			defer wg.Done()
			for tk := range ch {
				seqMu.Lock()
				seq++
				s := seq
				seqMu.Unlock()
				if tk.sampleIdx < 0 {
					hist, marks, err := verifC03RunHistory(dir, s, al, tk.hist, nil, acc, tk.shape)
					if err != nil {
						acc.Errs = append(acc.Errs, err.Error())
						continue
					}
					pre, tag := 0, ""
					if tk.shape != nil {
						pre, tag = len(tk.shape.letters), tk.shape.tag()
					}
					name := tag + hex.EncodeToString(hist[pre:])
					// replay must be deterministic: every non-final step was accepted with a change in the run of the prefix
					for i := 0; i+1 < len(marks); i++ {
						if marks[i] != 'a' {
							acc.Violating[name] = struct{}{}
							acc.addClass(&verifC03Class{Class: "replay of an accepted prefix behaved differently", Count: 1,
								Letters: name, History: tag + verifC03Render(al, hist, marks)})
						}
					}
					if len(marks) == len(hist) && len(marks) > 0 && marks[len(marks)-1] == 'a' && len(hist)-pre < b.MaxLen {
						acc.Extend = append(acc.Extend, name)
					}
				} else {
					rng := rand.New(rand.NewSource(b.Seed*1000003 + int64(tk.sampleIdx)))
					g := &verifC03Gen{rng: rng, n: b.SampleLens[rng.Intn(len(b.SampleLens))]}
					for i, o := range al {
						if !o.dOnly {
							g.byKind[o.kind] = append(g.byKind[o.kind], i)
						}
					}
					hist, marks, err := verifC03RunHistory(dir, s, al, nil, g, acc, nil)
					if err != nil {
						acc.Errs = append(acc.Errs, err.Error())
						continue
					}
					if tk.sampleIdx < 5 {
						acc.Samples[tk.sampleIdx] = verifC03Render(al, hist, marks)
					}
				}
			}
		}(accs[w])
	}
	for _, tk := range tasks {
		ch <- tk
	}
	close(ch)
	wg.Wait()
	total := verifC03NewAcc()
	for _, a := range accs {
		total.merge(a)
	}
	return total
}

// verifC03Dispatch splits a batch over `procs` child processes (re-execution of this test binary:
// the SQLite library serialises goroutines of one process on its global mutexes) and merges their results.
// procs <= 1: run in this process.
func verifC03Dispatch(t *testing.T, dir string, al []verifC03Op, b *verifC03Batch, procs, workers int) *verifC03Acc {
	if procs <= 1 {
		return verifC03RunBatch(dir, al, b, workers)
	}
	subs := make([]*verifC03Batch, procs)
	for i := range subs {
		c := *b
		c.Hists = nil
		c.SampleStep = 0
		subs[i] = &c
	}
	for i, h := range b.Hists {
		subs[i%procs].Hists = append(subs[i%procs].Hists, h)
	}
	if b.SampleStep > 0 {
		for i := range subs {
			subs[i].SampleFrom = b.SampleFrom + i*b.SampleStep
			subs[i].SampleStep = b.SampleStep * procs
		}
	}
	results := make([]*verifC03Acc, procs)
	var wg sync.WaitGroup
	for i := range subs {
		if len(subs[i].Hists) == 0 && (subs[i].SampleStep == 0 || subs[i].SampleFrom >= subs[i].SampleTo) {
			continue
		}
		wg.Add(1)
		go func(i int) {
			defer wg.Done()
			acc := verifC03NewAcc()
			results[i] = acc
			in := filepath.Join(dir, fmt.Sprintf("batch%d.json", i))
			out := filepath.Join(dir, fmt.Sprintf("result%d.json", i))
			js, _ := json.Marshal(subs[i])
			if err := os.WriteFile(in, js, 0o600); err != nil {
				acc.Errs = append(acc.Errs, err.Error())
				return
			}
			os.Remove(out)
			cmd := exec.Command(os.Args[0], "-test.run", "^TestVerifC03HashHistories$", "-test.count=1", "-test.timeout=0")
			cmd.Env = append(os.Environ(), "VERIF_C03_CHILD_IN="+in, "VERIF_C03_CHILD_OUT="+out)
			if msg, err := cmd.CombinedOutput(); err != nil {
				m := string(msg)
				if len(m) > 600 {
					m = m[len(m)-600:]
				}
				acc.Errs = append(acc.Errs, fmt.Sprintf("child %d: %v: %s", i, err, m))
				return
			}
			rs, err := os.ReadFile(out)
			if err == nil {
				err = json.Unmarshal(rs, acc)
			}
			if err != nil {
				acc.Errs = append(acc.Errs, fmt.Sprintf("child %d result: %v", i, err))
			}
		}(i)
	}
	wg.Wait()
	total := verifC03NewAcc()
	for _, a := range results {
		if a != nil {
			total.merge(a)
		}
	}
	return total
}

func TestVerifC03HashHistories(t *testing.T) {
	start := time.Now()
	oldLog := log.Writer()
	log.SetOutput(io.Discard)
	defer log.SetOutput(oldLog)

	al := verifC03Alphabet()
	// Database files live in t.TempDir(). A memory-backed TMPDIR makes the run 3x faster (creating a WAL
	// database syncs to disk): used when present, VERIF_C03_TMP=<dir> overrides, VERIF_C03_TMP=default keeps TMPDIR.
	switch tmp := os.Getenv("VERIF_C03_TMP"); {
	case tmp == "default":
	case tmp != "":
		os.Setenv("TMPDIR", tmp)
	default:
		if st, err := os.Stat("/dev/shm"); err == nil && st.IsDir() {
			if f, err := os.CreateTemp("/dev/shm", "verifC03probe"); err == nil {
				f.Close()
				os.Remove(f.Name())
				os.Setenv("TMPDIR", "/dev/shm")
			}
		}
	}
	dir := t.TempDir()

	// child mode: run one batch, write the accumulator, done
	if in := os.Getenv("VERIF_C03_CHILD_IN"); in != "" {
		var b verifC03Batch
		js, err := os.ReadFile(in)
		if err == nil {
			err = json.Unmarshal(js, &b)
		}
		if err != nil {
			t.Fatalf("child: %v", err)
		}
		acc := verifC03RunBatch(dir, al, &b, 1)
		out, _ := json.Marshal(acc)
		if err := os.WriteFile(os.Getenv("VERIF_C03_CHILD_OUT"), out, 0o600); err != nil {
			t.Fatalf("child: %v", err)
		}
		return
	}

	tier := "quick"
	maxLen, nSample, sampleLens := 3, 2000, []int{4, 5}
	if os.Getenv("VERIF_TIER") == "thorough" {
		tier = "thorough"
		maxLen, nSample, sampleLens = 4, 30000, []int{5, 6}
	}
	shapeLen := maxLen - 1 // quick 2, thorough 3
	shapeLen = verifC03EnvInt("VERIF_C03_SHAPELEN", shapeLen)
	maxLen = verifC03EnvInt("VERIF_C03_MAXLEN", maxLen)
	nSample = verifC03EnvInt("VERIF_C03_SAMPLES", nSample)
	seed := int64(verifC03EnvInt("VERIF_SEED", 1))
	procs := verifC03EnvInt("VERIF_C03_PROCS", runtime.NumCPU())
	workers := verifC03EnvInt("VERIF_C03_WORKERS", runtime.GOMAXPROCS(0))

	var exIdx, dIdx []uint8
	nFull := 0
	for i, o := range al {
		if o.ex {
			exIdx = append(exIdx, uint8(i))
		}
		if o.dOnly {
			dIdx = append(dIdx, uint8(i))
		} else {
			nFull++
		}
	}

	total := verifC03NewAcc()

	// exhaustive part, breadth first: level k = histories of length k
	levelRuns := []int{}
	prefixes := []string{""} // hex
	for k := 1; k <= maxLen; k++ {
		b := &verifC03Batch{MaxLen: maxLen, Seed: seed, SampleLens: sampleLens}
		for _, p := range prefixes {
			for _, l := range exIdx {
				b.Hists = append(b.Hists, p+hex.EncodeToString([]byte{l}))
			}
		}
		levelRuns = append(levelRuns, len(b.Hists))
		p := procs
		if len(b.Hists) < 200 {
			p = 1
		}
		acc := verifC03Dispatch(t, dir, al, b, p, workers)
		prefixes = acc.Extend
		sort.Strings(prefixes)
		acc.Extend = nil
		total.merge(acc)
	}
	exhaustiveDone := time.Since(start)

	// sampled part
	if nSample > 0 {
		b := &verifC03Batch{MaxLen: maxLen, Seed: seed, SampleLens: sampleLens, SampleFrom: 0, SampleTo: nSample, SampleStep: 1}
		total.merge(verifC03Dispatch(t, dir, al, b, procs, workers))
	}

	sampledDone := time.Since(start)

	// shapes part: every named shape is built first, then all histories of length <= shapeLen over the
	// exhaustive alphabet (plus the D letters for the deep diamond) run on top of it, breadth first
	shapes := verifC03Shapes(al)
	shapeAcc := verifC03NewAcc()
	shapeLevelRuns := []int{}
	shapeNominal := 0.0
	var shapeNames []string
	for _, sh := range shapes {
		var steps []string
		for _, l := range sh.letters {
			steps = append(steps, al[l].name)
		}
		shapeNames = append(shapeNames, fmt.Sprintf("S%d %s = %s", sh.idx, sh.name, strings.Join(steps, "; ")))
		n := len(exIdx)
		if sh.useD {
			n += len(dIdx)
		}
		for k := 0; k <= shapeLen; k++ {
			shapeNominal += math.Pow(float64(n), float64(k))
		}
	}
	if shapeLen >= 0 {
		var sprefixes []string
		b := &verifC03Batch{MaxLen: shapeLen, Seed: seed, SampleLens: sampleLens}
		for _, sh := range shapes {
			b.Hists = append(b.Hists, sh.tag())
		}
		for k := 0; k <= shapeLen; k++ {
			if k > 0 {
				b = &verifC03Batch{MaxLen: shapeLen, Seed: seed, SampleLens: sampleLens}
				for _, p := range sprefixes {
					n, _ := strconv.Atoi(p[1:strings.Index(p, "/")])
					letters := exIdx
					if shapes[n].useD {
						letters = append(append([]uint8{}, exIdx...), dIdx...)
					}
					for _, l := range letters {
						b.Hists = append(b.Hists, p+hex.EncodeToString([]byte{l}))
					}
				}
			}
			shapeLevelRuns = append(shapeLevelRuns, len(b.Hists))
			p := procs
			if len(b.Hists) < 200 {
				p = 1
			}
			acc := verifC03Dispatch(t, dir, al, b, p, workers)
			sprefixes = acc.Extend
			sort.Strings(sprefixes)
			acc.Extend = nil
			shapeAcc.merge(acc)
		}
	}
	shapesDone := time.Since(start)
	total.merge(shapeAcc)

	// nominal size of the exhaustive domain
	nominal := 0.0
	for k := 1; k <= maxLen; k++ {
		nominal += math.Pow(float64(len(exIdx)), float64(k))
	}

	rule := fmt.Sprintf("Bounded check, NOT a proof. Every history runs on its own fresh database NewSqliteDb(<tmp file>, \"\") "+
		"(root device node R and admin user node U under R exist); writes go through sdb.nodePoints / sdb.edgePoints. "+
		"After the initial state and after EVERY accepted write, ALL rows of table edges are read (SELECT * FROM edges: tombstoned and "+
		"root-unreachable/orphan edges included) and for each edge (up,down): stored hash (edges.hash, cross-checked against NodeEdge.Hash from "+
		"getNodes(all, down, includeDel=true)) must equal own ^ XOR(stored hash of every edge whose up == down, tombstoned ones included, "+
		"exactly the set getNodes(down, all, includeDel=true) gives verifyNodeHashes/CalcHash), own = XOR over node points and edge points read back "+
		"with getNodes of crc32.ChecksumIEEE(LE64(UnixNano) ++ type ++ key ++ text ++ LE64(Float64bits(value))) (0 for type nodeType), computed by the harness, "+
		"not by Point.CRC/CalcHash. expected_deep is the same fold with recomputed instead of stored child hashes (all edges locally right <=> all stored == from-scratch). "+
		"A violation is attributed to the write after which an edge's error (stored^expected) changed, and classified from the shape before that write; "+
		"violations = number of distinct executed histories after whose last write some edge is wrong (or a refused write changed the database). "+
		"A refused write (error) must leave the full dump of meta/edges/node_points/edge_points unchanged. "+
		"Nodes R,A,B,C,U; times T1<T2 (year 2100, later than the time.Now() stamps of the initial edges) plus a node/edge specific nanosecond offset "+
		"so that points of different nodes/edges never have equal checksums (equal checksums cancel under XOR). "+
		"Full alphabet (%d letters): mk(X under P)=edgePoints(X,P,{tombstone 0@T1,nodeType group}) X in ABC, P in RABC\\X (creation, edge-first creation under a not yet placed parent, mirror, re-delivery, stale undelete); "+
		"mkU(U under P) P in ABC (mirror of the populated admin node); np(X,type,T,v) X in RABC, type value (1|2) or description (d1|d2), T in T1,T2 "+
		"(first write, update, same-time rewrite, re-delivery, out-of-date; before any edge exists = points-first); ep(X under P, role@T=admin|user) on the 9 edges + U under R + U under A; "+
		"del/undel(X under P) = tombstone 1|0 @T2 on the same 11 edges. Writes on a missing edge are refused by the store (no node type). Parent literal \"root\" (replacing the root) is outside the domain. "+
		"Exhaustive alphabet (%d letters): all 9 mk, mkU(U under A), np A value@T1=1,@T2=1,@T2=2 and description@T2=d1, np R/B/C value@T2=1, "+
		"ep role@T2=admin on the 9 edges and U under R, ep A under R role@T1=user, del on the 9 edges and U under R, undel on the 9 edges. "+
		"Tier %s: EXHAUSTIVE over all histories of length <= %d on the exhaustive alphabet (nominal %.0f), executed literally for every history in which "+
		"each non-final write is accepted and changes the database (%d runs, per level %v); a history with an earlier refused or no-change write is not run, because that write left the full database dump "+
		"unchanged (checked on every such write) and the history then coincides with a shorter enumerated one. "+
		"SAMPLED (not exhaustive): %d histories of length in %v on the full alphabet, seed %d, kind weights mk .30 mkU .05 np .20 ep .25 del .10 undel .10, "+
		"edge writes aimed at an existing edge with probability .85. exhaustive=true is reported only when the sampled part is disabled (VERIF_C03_SAMPLES=0). "+
		"SHAPES (exhaustive on top of fixed prefixes): each of %d named shapes is built first on the fresh database (the prefix is not counted as history; in the run of the bare shape "+
		"Inv is checked after every prefix step, in the runs with a suffix after the complete prefix and after every write of the suffix), then ALL histories of length <= %d over the exhaustive alphabet "+
		"run on top of it, with the same reduction (a history is extended only if its last write was accepted and changed the database): %d runs, per level (0 = bare shapes) %v, nominal %.0f. "+
		"For the deep diamond the alphabet also has %d letters about a fourth extra node D (mk D under B, mk D under C, np D value@T2=1 and @T1=2, ep/del/undel D under B, mkU U under D), "+
		"which occur nowhere else. Shapes (diamonds make the upstream walk reach a joining edge along two paths, which lengths <= %d from the empty database never build): %s.",
		nFull, len(exIdx), tier, maxLen, nominal, verifC03SumInts(levelRuns), levelRuns, nSample, sampleLens, seed,
		len(shapes), shapeLen, verifC03SumInts(shapeLevelRuns), shapeLevelRuns, shapeNominal, len(dIdx), maxLen, strings.Join(shapeNames, " || "))

	classes := []*verifC03Class{}
	for _, c := range total.Classes {
		classes = append(classes, c)
	}
	sort.Slice(classes, func(i, j int) bool {
		if len(classes[i].Letters) != len(classes[j].Letters) {
			return len(classes[i].Letters) < len(classes[j].Letters)
		}
		return classes[i].Class < classes[j].Class
	})
	samples := []string{}
	for i := 0; i < 5; i++ {
		if s, ok := total.Samples[i]; ok {
			samples = append(samples, s)
		}
	}
	if len(samples) == 0 { // sampled part disabled: show some exhaustive histories
		var ks []string
		for k := range total.Nontrivial {
			ks = append(ks, k)
		}
		sort.Strings(ks)
		for i := 0; i < len(ks) && len(samples) < 5; i += 1 + len(ks)/5 {
			raw, _ := hex.DecodeString(ks[i])
			samples = append(samples, verifC03Render(al, raw, nil))
		}
	}

	res := map[string]any{
		"property":            "C03",
		"tier":                tier,
		"seed":                seed,
		"evaluations":         total.Evals,
		"edge_checks":         total.EdgeChecks,
		"distinct_nontrivial": len(total.Nontrivial),
		"rule":                rule,
		"samples":             samples,
		"exhaustive":          nSample == 0 && len(total.Errs) == 0,
		"exhaustive_part": map[string]any{"alphabet": len(exIdx), "max_len": maxLen, "runs": verifC03SumInts(levelRuns),
			"runs_per_level": levelRuns, "nominal_histories": nominal, "complete": len(total.Errs) == 0,
			"seconds": exhaustiveDone.Seconds()},
		"sampled_part": map[string]any{"alphabet": nFull, "histories": nSample, "lengths": sampleLens,
			"seconds": (sampledDone - exhaustiveDone).Seconds()},
		"shapes_part": map[string]any{"shapes": len(shapes), "shape_names": shapeNames, "max_len": shapeLen,
			"alphabet": len(exIdx), "alphabet_deep_diamond": len(exIdx) + len(dIdx),
			"runs": shapeAcc.Runs, "runs_per_level": shapeLevelRuns, "nominal_histories": shapeNominal,
			"evaluations": shapeAcc.Evals, "distinct_nontrivial": len(shapeAcc.Nontrivial),
			"violations": len(shapeAcc.Violating), "complete": len(shapeAcc.Errs) == 0,
			"seconds": (shapesDone - sampledDone).Seconds()},
		"runs":              total.Runs,
		"accepted_writes":   total.Accepted,
		"refused_writes":    total.Refused,
		"no_change_writes":  total.Noops,
		"violations":        len(total.Violating),
		"violation_classes": classes,
		"contracts":         verifC03Contracts,
		"harness_errors":    append([]string{}, total.Errs...),
		"processes":         procs,
		"seconds":           time.Since(start).Seconds(),
	}
	if len(total.Errs) > 5 {
		res["harness_errors"] = total.Errs[:5]
	}
	js, err := json.Marshal(res)
	if err != nil {
		t.Fatalf("marshal: %v", err)
	}
	fmt.Printf("C03-RESULT %s\n", js)
	if out := os.Getenv("VERIF_C03_OUT"); out != "" {
		if err := os.WriteFile(out, append(js, '\n'), 0o644); err != nil {
			t.Errorf("write %s: %v", out, err)
		}
	}
	if len(total.Errs) > 0 {
		t.Fatalf("C03: %d harness errors, first: %s", len(total.Errs), total.Errs[0])
	}
	if len(total.Violating) > 0 {
		var names []string
		for _, c := range classes {
			names = append(names, fmt.Sprintf("%q (shortest: %s)", c.Class, c.History))
		}
		t.Fatalf("C03: %d violating histories in %d classes: %s", len(total.Violating), len(classes), strings.Join(names, "; "))
	}
}

func verifC03SumInts(xs []int) int {
	n := 0
	for _, x := range xs {
		n += x
	}
	return n
}
