package data

// C11 bounded check harness (exhaustive enumeration over a stated finite
// domain; NOT a proof).
//
// Property C11: decoding / merging arbitrary point lists into any supported
// configuration struct never panics (contract N), and points whose type the
// struct does not declare change nothing (contract I).
//
// Inject into /repo/data with `go test -overlay`; see C11_NOTES.md.
//
// Env: VERIF_TIER=quick|thorough (default quick), VERIF_SEED (default 1),
// VERIF_C11_OUT=<file> (optional JSON copy of the result line).

import (
	"encoding/json"
	"fmt"
	"io"
	"log"
	"math"
	"math/bits"
	"math/rand"
	"os"
	"reflect"
	"regexp"
	"runtime"
	"runtime/debug"
	"sort"
	"strconv"
	"strings"
	"sync"
	"testing"
	"time"
)

// ---------------------------------------------------------------------------
// Target struct types
// ---------------------------------------------------------------------------

// verifC11P is a configuration struct with one `point:"f"` field of kind F.
type verifC11P[F any] struct {
	ID     string `node:"id"`
	Parent string `node:"parent"`
	F      F      `point:"f"`
}

// verifC11E is a configuration struct with one `edgepoint:"f"` field of kind F.
type verifC11E[F any] struct {
	ID     string `node:"id"`
	Parent string `node:"parent"`
	F      F      `edgepoint:"f"`
}

// verifC11Flat is a "flat" struct (documented in encode.go: `Points support
// "flat" structs, and they are treated like maps`). Its field keys are chosen
// from the enumerated Key alphabet so that the enumeration actually hits them.
type verifC11Flat struct {
	A int     `point:"0"`
	B string  `point:"abc"`
	C float64 `point:"1"`
	D *uint8  `point:"2"`
	E bool    // key "e" (ToCamelCase of the field name)
}

const (
	verifC11Declared   = "f"
	verifC11Undeclared = "verifC11Undeclared"
	verifC11NodeID     = "id1"
	verifC11ParentID   = "parent1"
)

// verifC11Target describes one target struct type (one field kind).
type verifC11Target struct {
	idx       int
	kind      string // coarse field kind used for violation classes
	fieldType string // exact Go type of the field, e.g. "[]int8"
	typeName  string // e.g. "verifC11P[[]int8]"
	edge      bool   // field carries an `edgepoint:` tag instead of `point:`
	l3        bool   // member of the target subset used for lists of length 3
	mk        [2]func() any
}

var verifC11PriorNames = [2]string{"zero", "populated"}

func verifC11Kind(t reflect.Type) string {
	switch t.Kind() {
	case reflect.Pointer:
		if t.Elem().Kind() == reflect.Struct {
			return "ptr-to-struct"
		}
		return "ptr"
	case reflect.Slice, reflect.Array, reflect.Map, reflect.Struct:
		return t.Kind().String()
	default:
		return "scalar"
	}
}

// verifC11Add registers one target type. pop returns a FRESH populated field
// value every time it is called (no aliasing between evaluations).
func verifC11Add[F any](ts *[]*verifC11Target, edge, l3 bool, fieldType string, pop func() F) {
	var zero F
	t := &verifC11Target{
		idx:       len(*ts),
		kind:      verifC11Kind(reflect.TypeOf(&zero).Elem()),
		fieldType: fieldType,
		edge:      edge,
		l3:        l3,
	}
	if edge {
		t.typeName = "verifC11E[" + fieldType + "]"
		t.mk[0] = func() any { return &verifC11E[F]{ID: verifC11NodeID, Parent: verifC11ParentID} }
		t.mk[1] = func() any { return &verifC11E[F]{ID: verifC11NodeID, Parent: verifC11ParentID, F: pop()} }
	} else {
		t.typeName = "verifC11P[" + fieldType + "]"
		t.mk[0] = func() any { return &verifC11P[F]{ID: verifC11NodeID, Parent: verifC11ParentID} }
		t.mk[1] = func() any { return &verifC11P[F]{ID: verifC11NodeID, Parent: verifC11ParentID, F: pop()} }
	}
	*ts = append(*ts, t)
}

// verifC11AddElem registers scalar, pointer, slice, [3]array and map[string]
// targets for one element type.
func verifC11AddElem[T any](ts *[]*verifC11Target, l3 bool, name string, a, b, c T) {
	verifC11Add(ts, false, l3, name, func() T { return a })
	verifC11Add(ts, false, l3, "*"+name, func() *T { x := a; return &x })
	verifC11Add(ts, false, l3, "[]"+name, func() []T { return []T{a, b, c} })
	verifC11Add(ts, false, l3, "[3]"+name, func() [3]T { return [3]T{a, b, c} })
	// a slice with spare capacity (as left behind by an earlier merge that trimmed trailing tombstones): growth within
	// the capacity takes a different branch of SetValue than growth by reallocation
	verifC11Add(ts, false, l3, "[]"+name+" (len 1, cap 8)", func() []T { s := make([]T, 1, 8); s[0] = a; return s })
	verifC11Add(ts, false, l3, "map[string]"+name, func() map[string]T { return map[string]T{"0": a, "abc": b} })
}

func verifC11Ptr[T any](v T) *T { return &v }

func verifC11PopFlat() verifC11Flat {
	return verifC11Flat{A: 7, B: "p", C: 1.5, D: verifC11Ptr(uint8(9)), E: true}
}

func verifC11Targets() []*verifC11Target {
	var ts []*verifC11Target
	verifC11AddElem[bool](&ts, true, "bool", true, false, true)
	verifC11AddElem[int](&ts, false, "int", 7, -8, 9)
	verifC11AddElem[int8](&ts, true, "int8", 7, -8, 9)
	verifC11AddElem[int16](&ts, false, "int16", 7, -8, 9)
	verifC11AddElem[int32](&ts, false, "int32", 7, -8, 9)
	verifC11AddElem[int64](&ts, false, "int64", 7, -8, 9)
	verifC11AddElem[uint](&ts, false, "uint", 7, 8, 9)
	verifC11AddElem[uint8](&ts, false, "uint8", 7, 8, 9)
	verifC11AddElem[uint16](&ts, false, "uint16", 7, 8, 9)
	verifC11AddElem[uint32](&ts, false, "uint32", 7, 8, 9)
	verifC11AddElem[uint64](&ts, true, "uint64", 7, 8, 9)
	verifC11AddElem[float32](&ts, false, "float32", 1.5, -2.5, 3.5)
	verifC11AddElem[float64](&ts, true, "float64", 1.5, -2.5, 3.5)
	verifC11AddElem[string](&ts, true, "string", "p", "q", "r")
	// containers of pointers
	verifC11Add(&ts, false, true, "[]*int", func() []*int {
		return []*int{verifC11Ptr(7), nil, verifC11Ptr(9)}
	})
	verifC11Add(&ts, false, true, "[]*string", func() []*string {
		return []*string{verifC11Ptr("p"), verifC11Ptr("q"), nil}
	})
	verifC11Add(&ts, false, true, "[3]*float64", func() [3]*float64 {
		return [3]*float64{verifC11Ptr(1.5), nil, verifC11Ptr(3.5)}
	})
	verifC11Add(&ts, false, true, "map[string]*uint8", func() map[string]*uint8 {
		return map[string]*uint8{"0": verifC11Ptr(uint8(7)), "abc": nil}
	})
	verifC11Add(&ts, false, true, "map[string]*string", func() map[string]*string {
		return map[string]*string{"0": verifC11Ptr("p"), "abc": verifC11Ptr("q")}
	})
	// flat struct / pointer to flat struct (documented in encode.go)
	verifC11Add(&ts, false, true, "verifC11Flat", verifC11PopFlat)
	verifC11Add(&ts, false, true, "*verifC11Flat", func() *verifC11Flat { f := verifC11PopFlat(); return &f })
	// edgepoint-tagged targets
	verifC11Add(&ts, true, true, "int", func() int { return 7 })
	verifC11Add(&ts, true, true, "string", func() string { return "p" })
	verifC11Add(&ts, true, true, "*float32", func() *float32 { return verifC11Ptr(float32(1.5)) })
	verifC11Add(&ts, true, true, "[]int32", func() []int32 { return []int32{7, -8, 9} })
	verifC11Add(&ts, true, true, "[3]bool", func() [3]bool { return [3]bool{true, false, true} })
	verifC11Add(&ts, true, true, "map[string]string", func() map[string]string {
		return map[string]string{"0": "p", "abc": "q"}
	})
	verifC11Add(&ts, true, true, "verifC11Flat", verifC11PopFlat)
	verifC11Add(&ts, true, true, "*verifC11Flat", func() *verifC11Flat { f := verifC11PopFlat(); return &f })
	return ts
}

// ---------------------------------------------------------------------------
// Point alphabet
// ---------------------------------------------------------------------------

var verifC11Keys = []string{
	"", "0", "1", "2", "3", "-1", "999", "1000", "1001", "4294967296",
	"9223372036854775807", "9223372036854775808", "abc", "1.5", " 1", "０",
}

var verifC11Values = []float64{
	0, 1, -1, 0.5, 1e300, -1e300, math.NaN(), math.Inf(1), math.Inf(-1),
	9223372036854775808.0,  // 2^63
	-9223372036854776833.0, // -2^63-1025 (rounds to the next float64 below -2^63)
	255, 256, -129, 65536, 4294967296,
}

var verifC11Texts = []string{"", "x"}

var verifC11Tombs = []int{0, 1, 2, 3, -1, -2, math.MaxInt, math.MinInt}

// Reductions for longer lists (indexes into the full alphabets above).
var (
	verifC11ValIdxL1  = []int{0, 1, 2, 3, 4, 5, 6, 7, 8, 9, 10, 11, 12, 13, 14, 15}
	verifC11TextIdxL1 = []int{0, 1}
	verifC11ValIdxL2  = []int{1, 2, 6} // 1, -1, NaN
	verifC11TextIdxL2 = []int{1}       // "x"
	verifC11ValIdxL3  = []int{1}       // 1
	verifC11TextIdxL3 = []int{1}       // "x"
)

// verifC11Sym is one letter of the per-point alphabet.
type verifC11Sym struct {
	p          Point
	undeclared bool
	cost       int // simplicity rank: sum of indexes in the full alphabets
}

func verifC11Alphabet(valIdx, textIdx []int) []verifC11Sym {
	var out []verifC11Sym
	for ti, typ := range []string{verifC11Declared, verifC11Undeclared} {
		for ki, key := range verifC11Keys {
			for _, vi := range valIdx {
				for _, xi := range textIdx {
					for bi, tomb := range verifC11Tombs {
						out = append(out, verifC11Sym{
							p: Point{
								Type: typ, Key: key,
								Value: verifC11Values[vi], Text: verifC11Texts[xi],
								Tombstone: tomb,
							},
							undeclared: ti == 1,
							cost:       ti + ki + vi + xi + bi,
						})
					}
				}
			}
		}
	}
	return out
}

// verifC11CheckAlphabetDistinct makes sure the mixed-radix list code is an
// injective encoding of the point list (needed for the exact distinct count).
func verifC11CheckAlphabetDistinct(t *testing.T) {
	seenK := map[string]bool{}
	for _, k := range verifC11Keys {
		if seenK[k] {
			t.Fatalf("duplicate key %q in alphabet", k)
		}
		seenK[k] = true
	}
	seenV := map[uint64]bool{}
	for _, v := range verifC11Values {
		b := math.Float64bits(v)
		if seenV[b] {
			t.Fatalf("duplicate value %v in alphabet", v)
		}
		seenV[b] = true
	}
	seenT := map[int]bool{}
	for _, v := range verifC11Tombs {
		if seenT[v] {
			t.Fatalf("duplicate tombstone %v in alphabet", v)
		}
		seenT[v] = true
	}
	if verifC11Texts[0] == verifC11Texts[1] || verifC11Declared == verifC11Undeclared {
		t.Fatalf("duplicate text/type in alphabet")
	}
}

// ---------------------------------------------------------------------------
// Functions under test
// ---------------------------------------------------------------------------

var verifC11FuncNames = [4]string{"Decode", "MergePoints", "Decode(EdgePoints)", "MergeEdgePoints"}

// verifC11Call runs one library entry point inside recover().
func verifC11Call(fn int, pts []Point, tgt any) (panicked bool, pv any, err error) {
	defer func() {
		if r := recover(); r != nil {
			panicked = true
			pv = r
		}
	}()
	switch fn {
	case 0:
		err = Decode(NodeEdgeChildren{NodeEdge{ID: verifC11NodeID, Type: "verifC11", Points: pts}, nil}, tgt)
	case 1:
		err = MergePoints(verifC11NodeID, pts, tgt)
	case 2:
		err = Decode(NodeEdgeChildren{NodeEdge{ID: verifC11NodeID, Parent: verifC11ParentID,
			Type: "verifC11", EdgePoints: pts}, nil}, tgt)
	case 3:
		err = MergeEdgePoints(verifC11NodeID, verifC11ParentID, pts, tgt)
	}
	return
}

// ---------------------------------------------------------------------------
// Formatting helpers
// ---------------------------------------------------------------------------

func verifC11FmtFloat(f float64) string {
	switch {
	case math.IsNaN(f):
		return "math.NaN()"
	case math.IsInf(f, 1):
		return "math.Inf(1)"
	case math.IsInf(f, -1):
		return "math.Inf(-1)"
	}
	return strconv.FormatFloat(f, 'g', -1, 64)
}

func verifC11FmtTomb(v int) string {
	switch v {
	case math.MaxInt:
		return "math.MaxInt"
	case math.MinInt:
		return "math.MinInt"
	}
	return strconv.Itoa(v)
}

func verifC11FmtPoints(pts []Point) string {
	var sb strings.Builder
	sb.WriteString("[]data.Point{")
	for i, p := range pts {
		if i > 0 {
			sb.WriteString(", ")
		}
		fmt.Fprintf(&sb, "{Type: %q, Key: %q, Value: %s, Text: %q, Tombstone: %s}",
			p.Type, p.Key, verifC11FmtFloat(p.Value), p.Text, verifC11FmtTomb(p.Tombstone))
	}
	sb.WriteString("}")
	return sb.String()
}

// verifC11FmtVal renders a value deterministically (pointers dereferenced,
// map keys sorted, long slices abbreviated).
func verifC11FmtVal(v reflect.Value) string {
	switch v.Kind() {
	case reflect.Pointer:
		if v.IsNil() {
			return "nil"
		}
		return "&" + verifC11FmtVal(v.Elem())
	case reflect.Slice, reflect.Array:
		if v.Kind() == reflect.Slice && v.IsNil() {
			return "nil"
		}
		var parts []string
		for i := 0; i < v.Len(); i++ {
			if i >= 6 && v.Len() > 8 {
				parts = append(parts, fmt.Sprintf("...(len %d)", v.Len()))
				break
			}
			parts = append(parts, verifC11FmtVal(v.Index(i)))
		}
		return "[" + strings.Join(parts, " ") + "]"
	case reflect.Map:
		if v.IsNil() {
			return "nil"
		}
		keys := v.MapKeys()
		sort.Slice(keys, func(i, j int) bool { return keys[i].String() < keys[j].String() })
		var parts []string
		for _, k := range keys {
			parts = append(parts, fmt.Sprintf("%q:%s", k.String(), verifC11FmtVal(v.MapIndex(k))))
		}
		return "map[" + strings.Join(parts, " ") + "]"
	case reflect.Struct:
		var parts []string
		for i := 0; i < v.NumField(); i++ {
			parts = append(parts, v.Type().Field(i).Name+":"+verifC11FmtVal(v.Field(i)))
		}
		return "{" + strings.Join(parts, " ") + "}"
	case reflect.String:
		return strconv.Quote(v.String())
	case reflect.Float32, reflect.Float64:
		return verifC11FmtFloat(v.Float())
	}
	return fmt.Sprint(v.Interface())
}

var verifC11NumRe = regexp.MustCompile(`[0-9]+`)

// ---------------------------------------------------------------------------
// Work units
// ---------------------------------------------------------------------------

type verifC11Unit struct {
	idx    int
	tgt    *verifC11Target
	prior  int
	fn     int
	L      int
	sample int // 0: enumerate the whole domain; >0: number of seeded random draws
}

// verifC11Best is the smallest reproducer of one violation class.
type verifC11Best struct {
	fn, prior, L, cost int
	tgt                *verifC11Target
	code               int
	msg                string // normalised message
	raw                string // one raw message
}

func (a *verifC11Best) less(b *verifC11Best) bool {
	if a.L != b.L {
		return a.L < b.L
	}
	if a.cost != b.cost {
		return a.cost < b.cost
	}
	if a.prior != b.prior {
		return a.prior < b.prior
	}
	if a.tgt.idx != b.tgt.idx {
		return a.tgt.idx < b.tgt.idx
	}
	if a.fn != b.fn {
		return a.fn < b.fn
	}
	return a.code < b.code
}

type verifC11Result struct {
	evaluations uint64
	violations  uint64
	distinct    uint64
	byMsg       map[string]uint64
	classes     map[string]*verifC11Best
	sample      string
}

func verifC11Pow(n, l int) int {
	r := 1
	for i := 0; i < l; i++ {
		r *= n
	}
	return r
}

func verifC11RunUnit(u verifC11Unit, syms []verifC11Sym, seed int64) verifC11Result {
	res := verifC11Result{byMsg: map[string]uint64{}, classes: map[string]*verifC11Best{}}
	n := len(syms)
	total := verifC11Pow(n, u.L)
	// exact set of evaluated non-trivial cases of this (function, target,
	// prior, length): one bit per injective mixed-radix list code
	seen := make([]uint64, (total+63)/64)
	pts := make([]Point, u.L)
	mk := u.tgt.mk[u.prior]
	// "f" is a declared type only on the channel that matches the field's tag
	declaredChannel := (u.fn < 2) != u.tgt.edge
	normCache := map[string]string{}
	sampleAt := int((uint64(u.idx)*7919 + uint64(seed)*104729) % uint64(total))

	record := func(code, cost int, raw string) {
		res.violations++
		norm, ok := normCache[raw]
		if !ok {
			norm = verifC11NumRe.ReplaceAllString(raw, "N")
			normCache[raw] = norm
		}
		res.byMsg[norm]++
		key := verifC11FuncNames[u.fn] + "|" + u.tgt.kind + "|" + norm
		b := &verifC11Best{fn: u.fn, prior: u.prior, L: u.L, cost: cost, tgt: u.tgt,
			code: code, msg: norm, raw: raw}
		if old, ok := res.classes[key]; !ok || b.less(old) {
			res.classes[key] = b
		}
	}

	eval := func(code int) {
		c := code
		allUndeclared := true
		cost := 0
		for i := 0; i < u.L; i++ {
			s := &syms[c%n]
			c /= n
			pts[i] = s.p
			cost += s.cost
			if declaredChannel && !s.undeclared {
				allUndeclared = false
			}
		}
		tgt := mk()
		panicked, pv, err := verifC11Call(u.fn, pts, tgt)
		// contract N
		res.evaluations++
		if panicked {
			record(code, cost, "panic: "+fmt.Sprint(pv))
		}
		if allUndeclared {
			// contract I
			res.evaluations++
			if want := mk(); !reflect.DeepEqual(tgt, want) {
				record(code, cost, "contract I violated (no declared point type in list): target changed from "+
					verifC11FmtVal(reflect.ValueOf(want).Elem())+" to "+verifC11FmtVal(reflect.ValueOf(tgt).Elem()))
			}
		} else {
			seen[code>>6] |= 1 << (uint(code) & 63)
			if res.sample == "" && (u.sample > 0 || code >= sampleAt) {
				out := "err=" + fmt.Sprint(err)
				if panicked {
					out = "PANIC " + fmt.Sprint(pv)
				}
				res.sample = fmt.Sprintf("%s(%s, prior=%s, %s) -> %s; target=%s",
					verifC11FuncNames[u.fn], u.tgt.typeName, verifC11PriorNames[u.prior],
					verifC11FmtPoints(pts), out, verifC11FmtVal(reflect.ValueOf(tgt).Elem()))
			}
		}
	}

	if u.sample == 0 {
		for code := 0; code < total; code++ {
			eval(code)
		}
	} else {
		rng := rand.New(rand.NewSource(seed*1000003 + int64(u.idx)))
		for i := 0; i < u.sample; i++ {
			eval(rng.Intn(total))
		}
	}
	for _, w := range seen {
		res.distinct += uint64(bits.OnesCount64(w))
	}
	return res
}

// verifC11DecodeList rebuilds the point list of a recorded case.
func verifC11DecodeList(code, l int, syms []verifC11Sym) []Point {
	pts := make([]Point, l)
	for i := 0; i < l; i++ {
		pts[i] = syms[code%len(syms)].p
		code /= len(syms)
	}
	return pts
}

// ---------------------------------------------------------------------------
// Result
// ---------------------------------------------------------------------------

type verifC11Class struct {
	Function   string `json:"function"`
	FieldKind  string `json:"field_kind"`
	TargetType string `json:"target_type"`
	Prior      string `json:"prior"`
	Points     string `json:"points"`
	Panic      string `json:"panic"`
}

type verifC11Output struct {
	Evaluations        uint64            `json:"evaluations"`
	DistinctNontrivial uint64            `json:"distinct_nontrivial"`
	Rule               string            `json:"rule"`
	Samples            []string          `json:"samples"`
	Exhaustive         bool              `json:"exhaustive"`
	Violations         uint64            `json:"violations"`
	ViolationClasses   []verifC11Class   `json:"violation_classes"`
	Contracts          string            `json:"contracts"`
	Tier               string            `json:"tier"`
	Seed               int64             `json:"seed"`
	Targets            int               `json:"targets"`
	ClassesTotal       int               `json:"violation_classes_total"`
	ViolationsByMsg    map[string]uint64 `json:"violations_by_message"`
}

const verifC11QuickSampleL3 = 100000

func TestVerifC11NoPanic(t *testing.T) {
	tier := os.Getenv("VERIF_TIER")
	if tier == "" {
		tier = "quick"
	}
	if tier != "quick" && tier != "thorough" {
		t.Fatalf("VERIF_TIER must be quick or thorough, got %q", tier)
	}
	seed := int64(1)
	if s := os.Getenv("VERIF_SEED"); s != "" {
		v, err := strconv.ParseInt(s, 10, 64)
		if err != nil {
			t.Fatalf("bad VERIF_SEED %q: %v", s, err)
		}
		seed = v
	}
	verifC11CheckAlphabetDistinct(t)

	// The library logs a warning for every scalar field that receives more
	// than one point; silence it (log.Printf returns early for io.Discard).
	oldW, oldF := log.Writer(), log.Flags()
	log.SetOutput(io.Discard)
	defer func() { log.SetOutput(oldW); log.SetFlags(oldF) }()
	// The live heap is tiny but the allocation rate is huge: run the GC on a
	// memory limit instead of on heap growth.
	oldGC := debug.SetGCPercent(-1)
	oldLim := debug.SetMemoryLimit(3 << 30)
	defer func() { debug.SetGCPercent(oldGC); debug.SetMemoryLimit(oldLim) }()

	start := time.Now()
	targets := verifC11Targets()
	alpha := map[int][]verifC11Sym{
		1: verifC11Alphabet(verifC11ValIdxL1, verifC11TextIdxL1),
		2: verifC11Alphabet(verifC11ValIdxL2, verifC11TextIdxL2),
		3: verifC11Alphabet(verifC11ValIdxL3, verifC11TextIdxL3),
	}

	// Build the work units, biggest first (deterministic order).
	var units []verifC11Unit
	for _, l := range []int{3, 2, 1} {
		for _, tg := range targets {
			if l == 3 && !tg.l3 {
				continue
			}
			fns := []int{0, 1}
			if tg.edge {
				fns = []int{0, 1, 2, 3}
			}
			for prior := 0; prior < 2; prior++ {
				for _, fn := range fns {
					u := verifC11Unit{idx: len(units), tgt: tg, prior: prior, fn: fn, L: l}
					if l == 3 && tier == "quick" {
						u.sample = verifC11QuickSampleL3
					}
					units = append(units, u)
				}
			}
		}
	}

	results := make([]verifC11Result, len(units))
	var wg sync.WaitGroup
	ch := make(chan int)
	workers := runtime.NumCPU()
	for w := 0; w < workers; w++ {
		wg.Add(1)
		go func() {
			defer wg.Done()
			for i := range ch {
				results[i] = verifC11RunUnit(units[i], alpha[units[i].L], seed)
			}
		}()
	}
	for i := range units {
		ch <- i
	}
	close(ch)
	wg.Wait()

	// Deterministic merge (unit order, independent of scheduling).
	out := verifC11Output{
		Exhaustive:      tier == "thorough",
		Contracts:       "N: no panic; I: undeclared types change nothing",
		Tier:            tier,
		Seed:            seed,
		Targets:         len(targets),
		ViolationsByMsg: map[string]uint64{},
		Samples:         []string{},
	}
	classes := map[string]*verifC11Best{}
	var sampleUnits []int
	for i, r := range results {
		out.Evaluations += r.evaluations
		out.DistinctNontrivial += r.distinct
		out.Violations += r.violations
		for m, c := range r.byMsg {
			out.ViolationsByMsg[m] += c
		}
		for k, b := range r.classes {
			if old, ok := classes[k]; !ok || b.less(old) {
				classes[k] = b
			}
		}
		if r.sample != "" {
			sampleUnits = append(sampleUnits, i)
		}
	}
	// 5 samples spread evenly over the units that evaluated a non-trivial case
	for j := 0; j < 5 && len(sampleUnits) > 0; j++ {
		k := (2*j + 1) * len(sampleUnits) / 10
		out.Samples = append(out.Samples, results[sampleUnits[k]].sample)
	}

	// Violation classes: at most 20, chosen round-robin over the distinct
	// normalised messages so every message is represented.
	out.ClassesTotal = len(classes)
	byMsg := map[string][]*verifC11Best{}
	for _, b := range classes {
		byMsg[b.msg] = append(byMsg[b.msg], b)
	}
	var msgs []string
	for m, bs := range byMsg {
		msgs = append(msgs, m)
		sort.Slice(bs, func(i, j int) bool {
			if bs[i].tgt.kind != bs[j].tgt.kind {
				return bs[i].tgt.kind < bs[j].tgt.kind
			}
			return bs[i].fn < bs[j].fn
		})
	}
	sort.Strings(msgs)
	out.ViolationClasses = []verifC11Class{}
	for round := 0; len(out.ViolationClasses) < 20; round++ {
		added := false
		for _, m := range msgs {
			if round < len(byMsg[m]) && len(out.ViolationClasses) < 20 {
				b := byMsg[m][round]
				out.ViolationClasses = append(out.ViolationClasses, verifC11Class{
					Function:   verifC11FuncNames[b.fn],
					FieldKind:  b.tgt.kind,
					TargetType: b.tgt.typeName,
					Prior:      verifC11PriorNames[b.prior],
					Points:     verifC11FmtPoints(verifC11DecodeList(b.code, b.L, alpha[b.L])),
					Panic:      b.raw,
				})
				added = true
			}
		}
		if !added {
			break
		}
	}

	n1, n2, n3 := len(alpha[1]), len(alpha[2]), len(alpha[3])
	nL3 := 0
	for _, tg := range targets {
		if tg.l3 {
			nL3++
		}
	}
	l3 := fmt.Sprintf("length 3: all %d^3=%d lists", n3, verifC11Pow(n3, 3))
	if tier == "quick" {
		l3 = fmt.Sprintf("length 3: %d seeded uniform random draws (with replacement, seed=%d) per "+
			"(function,target,prior) out of the %d^3=%d lists; NOT exhaustive",
			verifC11QuickSampleL3, seed, n3, verifC11Pow(n3, 3))
	}
	l3 += fmt.Sprintf("; length 3 is run on a %d-target subset only: the T, *T, []T, [3]T, map[string]T targets for T in "+
		"{bool,int8,uint64,float64,string} plus all pointer-container, flat-struct and edgepoint targets (lengths 1 and 2 "+
		"are run on all %d targets)", nL3, len(targets))
	out.Rule = fmt.Sprintf("tier=%s. Targets: %d struct types {ID `node:\"id\"`=\"id1\", Parent `node:\"parent\"`=\"parent1\", "+
		"F <kind>}: F tagged `point:\"f\"` for kinds T, *T, []T, [3]T, map[string]T with T in {bool,int,int8,int16,int32,int64,"+
		"uint,uint8,uint16,uint32,uint64,float32,float64,string}, plus []*int, []*string, [3]*float64, map[string]*uint8, "+
		"map[string]*string, flat struct, *flat struct; F tagged `edgepoint:\"f\"` for int, string, *float32, []int32, [3]bool, "+
		"map[string]string, flat struct, *flat struct. Priors: zero value; populated (scalars non-zero, pointers non-nil, slices len 3, "+
		"arrays filled, maps with keys \"0\",\"abc\", flat struct filled). Functions: point-tagged targets: Decode(Points), MergePoints; "+
		"edgepoint-tagged targets: Decode(Points), MergePoints (type \"f\" is then undeclared on that channel), Decode(EdgePoints), "+
		"MergeEdgePoints. Per-point alphabet: Type in {\"f\" (the field's tag), %q (undeclared)} x Key in %q x Tombstone in "+
		"{0,1,2,3,-1,-2,MaxInt,MinInt} x Value x Text, where length 1 uses all 16 Values {0,1,-1,0.5,1e300,-1e300,NaN,+Inf,-Inf,2^63,"+
		"-2^63-1025,255,256,-129,65536,4294967296} and both Texts {\"\",\"x\"} (%d letters); length 2 uses Value in {1,-1,NaN}, Text=\"x\" "+
		"(%d letters, all %d ordered pairs); length 3 uses Value=1, Text=\"x\" (%d letters); %s. Every list is evaluated on a fresh "+
		"copy of the prior, inside recover(). Contract N is evaluated for every (function,target,prior,list); contract I "+
		"(reflect.DeepEqual to a fresh prior) for every list in which no point has a type declared on the channel used. A case is "+
		"non-trivial iff its list is non-empty and contains at least one point whose type is declared on the channel used; "+
		"distinct_nontrivial is measured with an exact set (one bit per injective mixed-radix code of (function,target,prior,list)), "+
		"not estimated.",
		tier, len(targets), verifC11Undeclared, verifC11Keys, n1, n2, n2*n2, n3, l3)

	js, err := json.Marshal(out)
	if err != nil {
		t.Fatalf("json: %v", err)
	}
	fmt.Printf("C11-RESULT %s\n", js)
	fmt.Printf("C11-TIME tier=%s units=%d workers=%d elapsed=%.1fs\n", tier, len(units), workers, time.Since(start).Seconds())
	if p := os.Getenv("VERIF_C11_OUT"); p != "" {
		if err := os.WriteFile(p, append(js, '\n'), 0o644); err != nil {
			t.Fatalf("write %s: %v", p, err)
		}
	}
	if out.Violations > 0 {
		t.Fatalf("C11: %d violating cases in %d classes (%d shown); first: %+v",
			out.Violations, out.ClassesTotal, len(out.ViolationClasses), out.ViolationClasses[0])
	}
}
