package store

// Bounded check (exhaustive enumeration over a stated finite domain, NOT a proof) of property C01
// "newest point wins, whatever the delivery order or batching" on the real store code. Injected into
// /repo/store with `go test -overlay`.
//
// For every delivery history of the domain the harness
//   - creates a fresh database (NewSqliteDb(<file under t.TempDir()>, "")), takes the root id from
//     sdb.rootNodeID() and creates a child node X under the root with
//     sdb.edgePoints(X, root, {tombstone 0, nodeType "group"}),
//   - delivers the batches of the history with sdb.nodePoints(X, batch) (node variant) or
//     sdb.edgePoints(X, root, batch) (edge variant); every batch is a freshly built slice,
//   - reads back with sdb.getNodes(nil, root, X, "", false) and checks contract R.
//
// Contract R. Let identity(p) = (p.Type, p.Key with "" read as "0"). The set of points read (node variant:
// NodeEdge.Points; edge variant: NodeEdge.EdgePoints without the tombstone point written by the setup - no
// history of the domain writes tombstone points) holds exactly one point for every identity that occurs in
// the history and no point of any other identity; that point equals the delivered point of that identity with
// the greatest timestamp in Type, Key (normalised), Time, Value (bit for bit), Text, Tombstone, Origin and Data.
// In addition the other point set of X (edge points in the node variant, node points in the edge variant)
// must stay empty, every delivery must return nil and the read must return exactly one node.
//
// Domain. A base is a sequence of n points, 1 <= n <= N (quick N=3, thorough N=4); point k (k=1..n) has the
// timestamp time.Unix(0, k) - so timestamps are non-zero and distinct inside every identity - and a label out of
//   ("a",""), ("a","0"), ("a","b"), ("ab",""), ("c","1")
// (("a","") and ("a","0") are the same identity, ("a","b") and ("ab","") have equal concatenations); all 5^n
// labelings are enumerated. The payload of point k is distinct in every field: Value = k, Text "t<k>",
// Origin "o<k>", Tombstone = k, Data = {k, 0xff, label index}. For every base: all n! delivery orders, all
// 2^(n-1) ways to cut the ordered sequence into consecutive batches, three variants (plain; the whole batch
// sequence delivered a second time; the oldest point - timestamp 1 - sent again as a last batch of its own),
// and both kinds (node points, edge points).
//
// The modernc sqlite driver does not scale over goroutines inside one process, so the parent test re-executes
// the test binary as P child processes (P = twice the number of CPUs, VERIF_C01H_PROCS overrides); every child
// enumerates the whole domain and checks the histories whose canonical rendering hashes to its shard, so equal
// renderings always meet in one child and the per child sets of distinct renderings add up.
//
// Environment: VERIF_TIER (quick, default | thorough), VERIF_SEED (selects the samples that are reported),
// VERIF_C01H_OUT (result file), VERIF_C01H_BUDGET_S (wall clock budget; when it runs out the children stop and
// the result says exhaustive=false; default 55 s quick, 570 s thorough), VERIF_C01H_PROCS, VERIF_C01H_GOMAXPROCS
// (of each child, default 2), VERIF_C01H_TMP (directory for the databases of the children, default /dev/shm when
// it exists).

import (
	"bytes"
	"encoding/json"
	"fmt"
	"hash/fnv"
	"io"
	"log"
	"math"
	"os"
	"os/exec"
	"path/filepath"
	"runtime"
	"sort"
	"strconv"
	"strings"
	"sync"
	"testing"
	"time"

	"github.com/simpleiot/simpleiot/data"
)

type verifC01HLabel struct{ typ, key string }

var verifC01HLabels = []verifC01HLabel{{"a", ""}, {"a", "0"}, {"a", "b"}, {"ab", ""}, {"c", "1"}}

// a delivered point is (timestamp k, label index)
type verifC01HPt struct{ k, lab int }

type verifC01HHistory struct {
	kind    string // "node" or "edge"
	batches [][]verifC01HPt
}

type verifC01HViolation struct {
	Class    string `json:"class"`
	History  string `json:"history"`
	Read     string `json:"read"`
	Expected string `json:"expected"`
	points   int
	nbatch   int
}

type verifC01HSample struct {
	Score uint64 `json:"score"`
	Text  string `json:"text"`
}

type verifC01HChildResult struct {
	Evaluations int                            `json:"evaluations"`
	Nontrivial  int                            `json:"nontrivial"`
	Violations  int                            `json:"violations"`
	Completed   bool                           `json:"completed"`
	Samples     []verifC01HSample              `json:"samples"`
	Classes     map[string]verifC01HChildClass `json:"classes"`
	HarnessErr  string                         `json:"harness_err"`
}

type verifC01HChildClass struct {
	Class    string `json:"class"`
	History  string `json:"history"`
	Read     string `json:"read"`
	Expected string `json:"expected"`
	Points   int    `json:"points"`
	Batches  int    `json:"batches"`
	Count    int    `json:"count"`
}

func verifC01HNormKey(k string) string {
	if k == "" {
		return "0"
	}
	return k
}

func verifC01HMkPoint(p verifC01HPt) data.Point {
	l := verifC01HLabels[p.lab]
	return data.Point{
		Type:      l.typ,
		Key:       l.key,
		Time:      time.Unix(0, int64(p.k)),
		Value:     float64(p.k),
		Text:      fmt.Sprintf("t%d", p.k),
		Origin:    fmt.Sprintf("o%d", p.k),
		Tombstone: p.k,
		Data:      []byte{byte(p.k), 0xff, byte(p.lab)},
	}
}

func verifC01HRenderHistory(h verifC01HHistory) string {
	var sb strings.Builder
	sb.WriteString(h.kind)
	sb.WriteString(":")
	for _, b := range h.batches {
		sb.WriteString(" [")
		for i, p := range b {
			if i > 0 {
				sb.WriteString(" ")
			}
			l := verifC01HLabels[p.lab]
			fmt.Fprintf(&sb, "%s/%q@%d", l.typ, l.key, p.k)
		}
		sb.WriteString("]")
	}
	return sb.String()
}

func verifC01HRenderPoint(p data.Point) string {
	return fmt.Sprintf("{%s/%q @%d v=%v(%#x) text=%q tomb=%d origin=%q data=%x}", p.Type, p.Key,
		p.Time.UnixNano(), p.Value, math.Float64bits(p.Value), p.Text, p.Tombstone, p.Origin, p.Data)
}

func verifC01HRenderPoints(ps []data.Point) string {
	s := make([]string, len(ps))
	for i, p := range ps {
		s[i] = verifC01HRenderPoint(p)
	}
	sort.Strings(s)
	return "[" + strings.Join(s, " ") + "]"
}

// nontrivial: some identity is delivered at least twice (which covers a batch with two points of one identity)
func verifC01HNontrivial(h verifC01HHistory) bool {
	seen := map[verifC01HLabel]int{}
	for _, b := range h.batches {
		for _, p := range b {
			l := verifC01HLabels[p.lab]
			id := verifC01HLabel{l.typ, verifC01HNormKey(l.key)}
			seen[id]++
			if seen[id] > 1 {
				return true
			}
		}
	}
	return false
}

// expected read set of a history: per identity the delivered point with the greatest timestamp, key normalised
func verifC01HExpected(h verifC01HHistory) []data.Point {
	best := map[verifC01HLabel]verifC01HPt{}
	for _, b := range h.batches {
		for _, p := range b {
			l := verifC01HLabels[p.lab]
			id := verifC01HLabel{l.typ, verifC01HNormKey(l.key)}
			if cur, ok := best[id]; !ok || p.k > cur.k {
				best[id] = p
			}
		}
	}
	var ret []data.Point
	for id, p := range best {
		q := verifC01HMkPoint(p)
		q.Key = id.key
		ret = append(ret, q)
	}
	return ret
}

func verifC01HSamePoint(a, b data.Point) bool {
	return a.Type == b.Type && a.Key == b.Key && a.Time.UnixNano() == b.Time.UnixNano() && a.Time.Equal(b.Time) &&
		math.Float64bits(a.Value) == math.Float64bits(b.Value) && a.Text == b.Text && a.Tombstone == b.Tombstone &&
		a.Origin == b.Origin && bytes.Equal(a.Data, b.Data)
}

// verifC01HRun executes one history against a fresh database and returns the classes of violations of R
// (empty = R holds) with renderings of what was read and what was expected.
func verifC01HRun(dir string, seq int, h verifC01HHistory) (classes []string, read, expected string, harnessErr error) {
	file := filepath.Join(dir, fmt.Sprintf("h%d.sqlite", seq))
	defer func() {
		os.Remove(file)
		os.Remove(file + "-wal")
		os.Remove(file + "-shm")
	}()
	sdb, err := NewSqliteDb(file, "")
	if err != nil {
		return nil, "", "", fmt.Errorf("NewSqliteDb: %v", err)
	}
	defer sdb.Close()
	root := sdb.rootNodeID()
	x := "verif-c01h-x"
	err = sdb.edgePoints(x, root, data.Points{
		{Type: data.PointTypeTombstone, Value: 0},
		{Type: data.PointTypeNodeType, Text: "group"},
	})
	if err != nil {
		return nil, "", "", fmt.Errorf("creating the child node: %v", err)
	}

	want := verifC01HExpected(h)
	expected = verifC01HRenderPoints(want)
	add := func(c string) {
		for _, o := range classes {
			if o == c {
				return
			}
		}
		classes = append(classes, c)
	}

	for bi, b := range h.batches {
		batch := make(data.Points, 0, len(b)) // a fresh slice with fresh Data for every delivery
		for _, p := range b {
			batch = append(batch, verifC01HMkPoint(p))
		}
		if h.kind == "node" {
			err = sdb.nodePoints(x, batch)
		} else {
			err = sdb.edgePoints(x, root, batch)
		}
		if err != nil {
			add(h.kind + "/delivery-error")
			read = fmt.Sprintf("delivery of batch %d returned: %v", bi, err)
			return classes, read, expected, nil
		}
	}

	nodes, err := sdb.getNodes(nil, root, x, "", false)
	if err != nil {
		add(h.kind + "/read-error")
		return classes, fmt.Sprintf("getNodes returned: %v", err), expected, nil
	}
	if len(nodes) != 1 {
		add(h.kind + "/node-not-read-once")
		return classes, fmt.Sprintf("getNodes returned %d nodes", len(nodes)), expected, nil
	}
	var got, other []data.Point
	var edgeGot []data.Point
	for _, p := range nodes[0].EdgePoints {
		if p.Type == data.PointTypeTombstone {
			continue
		}
		edgeGot = append(edgeGot, p)
	}
	if h.kind == "node" {
		got, other = nodes[0].Points, edgeGot
	} else {
		got, other = edgeGot, nodes[0].Points
	}
	read = verifC01HRenderPoints(got)
	if len(other) > 0 {
		add(h.kind + "/points-in-the-other-set")
		read += " other set: " + verifC01HRenderPoints(other)
	}

	byID := map[verifC01HLabel][]data.Point{}
	for _, p := range got {
		id := verifC01HLabel{p.Type, verifC01HNormKey(p.Key)}
		byID[id] = append(byID[id], p)
	}
	wantIDs := map[verifC01HLabel]bool{}
	for _, w := range want {
		id := verifC01HLabel{w.Type, w.Key}
		wantIDs[id] = true
		g := byID[id]
		switch {
		case len(g) == 0:
			add(h.kind + "/identity-missing")
		case len(g) > 1:
			add(h.kind + "/second-point-for-one-identity")
		case verifC01HSamePoint(g[0], w):
		case g[0].Time.UnixNano() < w.Time.UnixNano():
			add(h.kind + "/older-point-read")
		case g[0].Key != w.Key:
			add(h.kind + "/key-not-normalised")
		default:
			add(h.kind + "/fields-differ")
		}
	}
	for id := range byID {
		if !wantIDs[id] {
			add(h.kind + "/identity-never-delivered")
		}
	}
	sort.Strings(classes)
	return classes, read, expected, nil
}

// verifC01HEnumerate calls f for every history of the tier's domain, smallest bases first; f returns false to stop.
func verifC01HEnumerate(maxN int, f func(h verifC01HHistory) bool) {
	for n := 1; n <= maxN; n++ {
		labels := make([]int, n)
		var perms [][]int
		var mkPerm func(cur []int, used int)
		mkPerm = func(cur []int, used int) {
			if len(cur) == n {
				perms = append(perms, append([]int{}, cur...))
				return
			}
			for k := 1; k <= n; k++ {
				if used&(1<<k) == 0 {
					mkPerm(append(cur, k), used|1<<k)
				}
			}
		}
		mkPerm(nil, 0)
		total := 1
		for i := 0; i < n; i++ {
			total *= len(verifC01HLabels)
		}
		for code := 0; code < total; code++ {
			c := code
			for i := n - 1; i >= 0; i-- {
				labels[i] = c % len(verifC01HLabels)
				c /= len(verifC01HLabels)
			}
			for _, perm := range perms {
				for cut := 0; cut < 1<<(n-1); cut++ {
					var batches [][]verifC01HPt
					cur := []verifC01HPt{}
					for i, k := range perm {
						cur = append(cur, verifC01HPt{k, labels[k-1]})
						if i == n-1 || cut&(1<<i) != 0 {
							batches = append(batches, cur)
							cur = []verifC01HPt{}
						}
					}
					for variant := 0; variant < 3; variant++ {
						bs := append([][]verifC01HPt{}, batches...)
						switch variant {
						case 1:
							bs = append(bs, batches...)
						case 2:
							bs = append(bs, []verifC01HPt{{1, labels[0]}})
						}
						for _, kind := range []string{"node", "edge"} {
							if !f(verifC01HHistory{kind, bs}) {
								return
							}
						}
					}
				}
			}
		}
	}
}

func verifC01HDomainSize(maxN int) int {
	total := 0
	for n := 1; n <= maxN; n++ {
		c, fact := 1, 1
		for i := 1; i <= n; i++ {
			c *= len(verifC01HLabels)
			fact *= i
		}
		total += c * fact * (1 << (n - 1)) * 3 * 2
	}
	return total
}

func verifC01HHash(seed int64, s string) uint64 {
	hh := fnv.New64a()
	fmt.Fprintf(hh, "%d|", seed)
	io.WriteString(hh, s)
	// one extra mixing round, fnv alone is weak in the low bits for short inputs
	x := hh.Sum64()
	x ^= x >> 33
	x *= 0xff51afd7ed558ccd
	x ^= x >> 33
	return x
}

func verifC01HSmaller(a, b verifC01HChildClass) bool {
	if a.Points != b.Points {
		return a.Points < b.Points
	}
	if a.Batches != b.Batches {
		return a.Batches < b.Batches
	}
	if len(a.History) != len(b.History) {
		return len(a.History) < len(b.History)
	}
	return a.History < b.History
}

func verifC01HTier() (string, int) {
	if os.Getenv("VERIF_TIER") == "thorough" {
		return "thorough", 4
	}
	return "quick", 3
}

func verifC01HSeed() int64 {
	s, err := strconv.ParseInt(os.Getenv("VERIF_SEED"), 10, 64)
	if err != nil {
		return 1
	}
	return s
}

// child: check the histories of shard `shard` out of `procs`
func verifC01HChild(t *testing.T, spec string) {
	log.SetOutput(io.Discard)
	var shard, procs int
	var deadlineUnix int64
	if _, err := fmt.Sscanf(spec, "%d/%d/%d", &shard, &procs, &deadlineUnix); err != nil || procs < 1 {
		t.Fatalf("bad child spec %q: %v", spec, err)
	}
	_, maxN := verifC01HTier()
	seed := verifC01HSeed()
	dir := t.TempDir()
	res := verifC01HChildResult{Completed: true, Classes: map[string]verifC01HChildClass{}}
	seen := map[string]bool{}
	deadline := time.Unix(deadlineUnix, 0)
	seq := 0
	verifC01HEnumerate(maxN, func(h verifC01HHistory) bool {
		r := verifC01HRenderHistory(h)
		if int(verifC01HHash(0, r)%uint64(procs)) != shard {
			return true
		}
		if seq%64 == 0 && time.Now().After(deadline) {
			res.Completed = false
			return false
		}
		seq++
		classes, read, expected, herr := verifC01HRun(dir, seq, h)
		if herr != nil {
			res.HarnessErr = fmt.Sprintf("%s: %v", r, herr)
			res.Completed = false
			return false
		}
		res.Evaluations++
		nontrivial := verifC01HNontrivial(h)
		if nontrivial && !seen[r] {
			seen[r] = true
			res.Nontrivial++
		}
		if len(classes) > 0 {
			res.Violations++
			npts := 0
			for _, b := range h.batches {
				npts += len(b)
			}
			for _, c := range classes {
				cand := verifC01HChildClass{Class: c, History: r, Read: read, Expected: expected, Points: npts, Batches: len(h.batches)}
				old, ok := res.Classes[c]
				cand.Count = old.Count + 1
				if !ok || verifC01HSmaller(cand, old) {
					res.Classes[c] = cand
				} else {
					old.Count++
					res.Classes[c] = old
				}
			}
		} else if nontrivial {
			s := verifC01HSample{Score: verifC01HHash(seed, r), Text: r + "  ->  read " + read}
			res.Samples = append(res.Samples, s)
			sort.Slice(res.Samples, func(i, j int) bool { return res.Samples[i].Score < res.Samples[j].Score })
			if len(res.Samples) > 5 {
				res.Samples = res.Samples[:5]
			}
		}
		return true
	})
	b, _ := json.Marshal(res)
	if err := os.WriteFile(os.Getenv("VERIF_C01H_CHILD_OUT"), b, 0o600); err != nil {
		t.Fatalf("child result: %v", err)
	}
}

func TestVerifC01Histories(t *testing.T) {
	if spec := os.Getenv("VERIF_C01H_CHILD"); spec != "" {
		verifC01HChild(t, spec)
		return
	}
	tier, maxN := verifC01HTier()
	seed := verifC01HSeed()
	procs := 2 * runtime.NumCPU() // measured: twice the CPUs is ~25% faster than one child per CPU (children wait in the kernel)
	if v, err := strconv.Atoi(os.Getenv("VERIF_C01H_PROCS")); err == nil && v > 0 {
		procs = v
	}
	gomax := "2"
	if v := os.Getenv("VERIF_C01H_GOMAXPROCS"); v != "" {
		gomax = v
	}
	budget := 55
	if tier == "thorough" {
		budget = 570
	}
	if v, err := strconv.Atoi(os.Getenv("VERIF_C01H_BUDGET_S")); err == nil && v > 0 {
		budget = v
	}
	start := time.Now()
	deadline := start.Add(time.Duration(budget) * time.Second)
	outDir := t.TempDir()
	tmp := os.Getenv("VERIF_C01H_TMP")
	if tmp == "" {
		if st, err := os.Stat("/dev/shm"); err == nil && st.IsDir() {
			if d, err := os.MkdirTemp("/dev/shm", "verifc01h"); err == nil {
				tmp = d
				defer os.RemoveAll(d)
			}
		}
	}

	results := make([]verifC01HChildResult, procs)
	errs := make([]string, procs)
	var wg sync.WaitGroup
	for i := 0; i < procs; i++ {
		wg.Add(1)
		go func(i int) {
			defer wg.Done()
			out := filepath.Join(outDir, fmt.Sprintf("child%d.json", i))
			cmd := exec.Command(os.Args[0], "-test.run", "^TestVerifC01Histories$", "-test.count=1", "-test.timeout=0")
			cmd.Env = append(os.Environ(),
				fmt.Sprintf("VERIF_C01H_CHILD=%d/%d/%d", i, procs, deadline.Unix()),
				"VERIF_C01H_CHILD_OUT="+out, "GOMAXPROCS="+gomax)
			if tmp != "" {
				cmd.Env = append(cmd.Env, "TMPDIR="+tmp)
			}
			co, err := cmd.CombinedOutput()
			if err != nil {
				tail := string(co)
				if len(tail) > 2000 {
					tail = tail[len(tail)-2000:]
				}
				errs[i] = fmt.Sprintf("child %d: %v: %s", i, err, tail)
				return
			}
			b, err := os.ReadFile(out)
			if err != nil {
				errs[i] = fmt.Sprintf("child %d: %v", i, err)
				return
			}
			if err := json.Unmarshal(b, &results[i]); err != nil {
				errs[i] = fmt.Sprintf("child %d: %v", i, err)
			}
		}(i)
	}
	wg.Wait()
	for _, e := range errs {
		if e != "" {
			t.Fatalf("harness error: %s", e)
		}
	}

	evaluations, nontrivial, violations := 0, 0, 0
	completed := true
	var samples []verifC01HSample
	classes := map[string]verifC01HChildClass{}
	for _, r := range results {
		if r.HarnessErr != "" {
			t.Fatalf("harness error in a child: %s", r.HarnessErr)
		}
		evaluations += r.Evaluations
		nontrivial += r.Nontrivial
		violations += r.Violations
		completed = completed && r.Completed
		samples = append(samples, r.Samples...)
		for c, v := range r.Classes {
			old, ok := classes[c]
			n := old.Count + v.Count
			if !ok || verifC01HSmaller(v, old) {
				old = v
			}
			old.Count = n
			classes[c] = old
		}
	}
	domain := verifC01HDomainSize(maxN)
	exhaustive := completed && evaluations == domain
	sort.Slice(samples, func(i, j int) bool { return samples[i].Score < samples[j].Score })
	if len(samples) > 5 {
		samples = samples[:5]
	}
	sampleTexts := []string{}
	for _, s := range samples {
		sampleTexts = append(sampleTexts, s.Text)
	}
	var names []string
	for c := range classes {
		names = append(names, c)
	}
	sort.Strings(names)
	vclasses := []map[string]any{}
	for _, c := range names {
		v := classes[c]
		vclasses = append(vclasses, map[string]any{"class": v.Class, "history": v.History, "read": v.Read,
			"expected": v.Expected, "count": v.Count})
	}
	labs := []string{}
	for _, l := range verifC01HLabels {
		labs = append(labs, fmt.Sprintf("(%q,%q)", l.typ, l.key))
	}
	res := map[string]any{
		"evaluations":         evaluations,
		"distinct_nontrivial": nontrivial,
		"domain_size":         domain,
		"exhaustive":          exhaustive,
		"tier":                tier,
		"seed":                seed,
		"processes":           procs,
		"seconds":             math.Round(time.Since(start).Seconds()*10) / 10,
		"samples":             sampleTexts,
		"violations":          violations,
		"violation_classes":   vclasses,
		"rule": fmt.Sprintf("bounded, not a proof: every base of n=1..%d points where point k has timestamp time.Unix(0,k), payload "+
			"(Value=k, Text t<k>, Origin o<k>, Tombstone=k, Data={k,0xff,label}) and any of the labels %s (all 5^n labelings; "+
			"(\"a\",\"\") and (\"a\",\"0\") are one identity); for each base all n! delivery orders x all 2^(n-1) cuts into "+
			"consecutive batches x 3 variants (plain | whole batch sequence delivered twice | oldest point, timestamp 1, re-sent as "+
			"a last batch) x 2 kinds (node points via nodePoints | edge points via edgePoints); one fresh sqlite database per "+
			"history, fresh batch slices per delivery, read with getNodes(nil, root, X, \"\", false). A history is written "+
			"kind: [type/key@timestamp ...] ... with one bracket per batch. distinct_nontrivial = distinct history renderings in "+
			"which some identity is delivered at least twice (this includes every batch with two points of one identity). "+
			"The seed only selects the samples.", maxN, strings.Join(labs, " ")),
		"contracts": "R: the points read for X (node variant: node points; edge variant: edge points without the setup's tombstone " +
			"point) hold exactly one point per identity (Type, Key with \"\" read as \"0\") delivered in the history and none of any " +
			"other identity; it equals the delivered point of that identity with the greatest timestamp in Type, normalised Key, " +
			"Time, Value (bit for bit), Text, Tombstone, Origin and Data; the other point set of X stays empty; every delivery " +
			"returns nil; getNodes returns exactly one node",
	}
	b, _ := json.Marshal(res)
	fmt.Println("C01H-RESULT", string(b))
	if f := os.Getenv("VERIF_C01H_OUT"); f != "" {
		if err := os.WriteFile(f, b, 0o644); err != nil {
			t.Errorf("writing %s: %v", f, err)
		}
	}
	if violations > 0 {
		first := classes[names[0]]
		t.Fatalf("%d histories violate contract R (%d classes), e.g. %s: %s read %s expected %s", violations, len(names),
			first.Class, first.History, first.Read, first.Expected)
	}
	if !exhaustive {
		t.Logf("the budget of %d s ran out: %d of %d histories checked, result is NOT exhaustive", budget, evaluations, domain)
	}
}
