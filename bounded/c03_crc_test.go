package data

// Bounded check for property C03, point checksum part: Point.CRC() against an independent
// implementation of the documented definition (docs/ref/sync.md "Point CRC"), over a finite corpus.
// Exhaustive over the stated corpus, NOT a proof. Injected into /repo/data with `go test -overlay`.

import (
	"encoding/binary"
	"encoding/json"
	"fmt"
	"hash/crc32"
	"math"
	"os"
	"testing"
	"time"
)

// verifC03crcRef: crc32 (IEEE) over LE64(UnixNano) ++ type ++ key ++ text ++ LE64(Float64bits(value));
// node-type points are never stored and have checksum 0.
func verifC03crcRef(t time.Time, typ, key, text string, value float64) uint32 {
	if typ == "nodeType" {
		return 0
	}
	b := make([]byte, 0, 16+len(typ)+len(key)+len(text))
	var d [8]byte
	binary.LittleEndian.PutUint64(d[:], uint64(t.UnixNano()))
	b = append(b, d[:]...)
	b = append(b, typ...)
	b = append(b, key...)
	b = append(b, text...)
	binary.LittleEndian.PutUint64(d[:], math.Float64bits(value))
	b = append(b, d[:]...)
	return crc32.ChecksumIEEE(b)
}

func TestVerifC03CRC(t *testing.T) {
	types := []string{"", "value", "description", "nodeType", "tömbstone", "a", "ab"}
	keys := []string{"", "0", "1", "b", "ключ"}
	texts := []string{"", "x", "hello", "héllo", "日本語", "\x00"}
	times := []time.Time{
		time.Unix(0, 0), time.Unix(0, 1), time.Unix(0, -1), time.Unix(-1000000000, 5),
		time.Unix(1600000000, 123456789), time.Unix(4102444800, 0), time.Unix(0, math.MaxInt64), time.Unix(0, math.MinInt64),
	}
	values := []float64{0, math.Copysign(0, -1), 1, -1, 0.1, math.Inf(1), math.Inf(-1),
		math.SmallestNonzeroFloat64, math.MaxFloat64, math.NaN()}

	var evaluations, mismatches, collisions, skippedNodeType int64
	var mismatchSamples, collisionSamples, samples []string
	distinct := map[string]struct{}{}
	note := func(list *[]string, s string) {
		if len(*list) < 5 {
			*list = append(*list, s)
		}
	}
	show := func(p Point) string {
		return fmt.Sprintf("{time=%d type=%q key=%q text=%q value=%v(bits %#x)}", p.Time.UnixNano(), p.Type, p.Key, p.Text,
			p.Value, math.Float64bits(p.Value))
	}
	zone := time.FixedZone("verif", 5*3600+1800)

	for _, tm := range times {
		for _, ty := range types {
			for _, k := range keys {
				for _, tx := range texts {
					for _, v := range values {
						p := Point{Time: tm, Type: ty, Key: k, Text: tx, Value: v}
						distinct[show(p)] = struct{}{}
						want := verifC03crcRef(tm, ty, k, tx, v)
						got := p.CRC()

						// (1) equals the documented definition
						evaluations++
						if got != want {
							mismatches++
							note(&mismatchSamples, fmt.Sprintf("definition: %s CRC()=%d reference=%d", show(p), got, want))
						}
						if len(samples) < 5 && evaluations%2917 == 1 {
							samples = append(samples, fmt.Sprintf("%s -> %d", show(p), got))
						}

						// (2) does not depend on Data, Tombstone, Origin, nor on the zone of the time
						variants := []Point{p, p, p, p, p}
						variants[0].Data = []byte{1, 2, 3}
						variants[1].Tombstone = 1
						variants[2].Origin = "someone"
						variants[3].Data, variants[3].Tombstone, variants[3].Origin = []byte{}, -3, "日本"
						variants[4].Time = p.Time.In(zone)
						for i, q := range variants {
							evaluations++
							if q.CRC() != got {
								mismatches++
								note(&mismatchSamples, fmt.Sprintf("independence (variant %d): %s CRC()=%d, with other fields changed %d", i, show(p), got, q.CRC()))
							}
						}

						// (3) changes when exactly one of the five fields changes
						if ty == "nodeType" {
							skippedNodeType++ // by definition 0 whatever the other fields are
							continue
						}
						check := func(q Point, field string) {
							evaluations++
							if q.CRC() == got {
								collisions++
								note(&collisionSamples, fmt.Sprintf("%s changed: %s and %s both have CRC %d", field, show(p), show(q), got))
							}
						}
						for _, tm2 := range times {
							if tm2.UnixNano() != tm.UnixNano() {
								q := p
								q.Time = tm2
								check(q, "time")
							}
						}
						for _, ty2 := range types {
							if ty2 != ty {
								q := p
								q.Type = ty2
								check(q, "type")
							}
						}
						for _, k2 := range keys {
							if k2 != k {
								q := p
								q.Key = k2
								check(q, "key")
							}
						}
						for _, tx2 := range texts {
							if tx2 != tx {
								q := p
								q.Text = tx2
								check(q, "text")
							}
						}
						for _, v2 := range values {
							if math.Float64bits(v2) != math.Float64bits(v) {
								q := p
								q.Value = v2
								check(q, "value")
							}
						}
					}
				}
			}
		}
	}

	// informational: the layout has no separators, so a change of TWO string fields can keep the bytes
	a := Point{Time: times[1], Type: "a", Key: "b", Value: 1}
	b := Point{Time: times[1], Type: "ab", Key: "", Value: 1}
	boundary := a.CRC() == b.CRC()

	rule := fmt.Sprintf("Exhaustive over the product corpus, NOT a proof: %d times (0, +-1 ns, negative, 2020, 2100, MaxInt64 ns, MinInt64 ns) x %d types "+
		"(empty, ASCII, non-ASCII, nodeType) x %d keys x %d texts (empty, ASCII, non-ASCII, NUL) x %d values (0, -0, +-1, 0.1, +-Inf, 5e-324, MaxFloat64, NaN). "+
		"For every point: (1) Point.CRC() == crc32.ChecksumIEEE(LE64(UnixNano) ++ type ++ key ++ text ++ LE64(Float64bits(value))), 0 for type nodeType (harness implementation); "+
		"(2) CRC unchanged when only Data, Tombstone, Origin (one at a time and together) or the time zone of the same instant change; "+
		"(3) for every other corpus value of exactly one of time/type/key/text/value (compared by UnixNano / string / float bits) the CRC differs "+
		"(a 32-bit coincidence is reported in `collisions`, not failed; base points of type nodeType are skipped for (3): %d). "+
		"mismatches counts failures of (1) and (2). Informational: the layout concatenates type, key and text without separators, so type=a,key=b and type=ab,key=\"\" "+
		"(two fields changed) have the same checksum: boundary_shift_collision=%v.",
		len(times), len(types), len(keys), len(texts), len(values), skippedNodeType, boundary)

	res := map[string]any{
		"property":                 "C03 (point checksum)",
		"evaluations":              evaluations,
		"distinct_nontrivial":      len(distinct),
		"rule":                     rule,
		"samples":                  samples,
		"exhaustive":               true,
		"mismatches":               mismatches,
		"mismatch_samples":         mismatchSamples,
		"collisions":               collisions,
		"collision_samples":        collisionSamples,
		"boundary_shift_collision": boundary,
		"violations":               mismatches,
		"contracts":                "Point.CRC() == documented crc32 of (time, type, key, text, value); independent of Data, Tombstone, Origin; single-field change changes the CRC",
	}
	js, err := json.Marshal(res)
	if err != nil {
		t.Fatalf("marshal: %v", err)
	}
	fmt.Printf("C03CRC-RESULT %s\n", js)
	if out := os.Getenv("VERIF_C03CRC_OUT"); out != "" {
		if err := os.WriteFile(out, append(js, '\n'), 0o644); err != nil {
			t.Errorf("write %s: %v", out, err)
		}
	}
	if mismatches > 0 {
		t.Fatalf("C03CRC: %d mismatches, e.g. %v", mismatches, mismatchSamples)
	}
}
