package client_test

// Replay for finding D26 (C02): a subtree that exists only upstream (created while the link was down) has to be on the
// downstream instance after catch-up synchronisation. (*SyncClient).sendNodesLocal sent the upstream node down and then
// read the node's children from the LOCAL store - where the node did not exist a moment ago, so there are none - instead
// of from the upstream: only the top node of the subtree arrived; every further level needed one more sync period.
// Scenario: U (upstream) and D (downstream, sync period 60 s); once D's device node is upstream the sync node is
// disabled, U gets device -> g1 -> g2 -> v1, the sync node is enabled again; the catch-up pass that runs on reconnect
// must bring g1, g2 and v1 down (the next pass is a minute away).

import (
	"github.com/nats-io/nats.go"
	"testing"
	"time"

	"github.com/simpleiot/simpleiot/client"
	"github.com/simpleiot/simpleiot/data"
	"github.com/simpleiot/simpleiot/server"
)

func verifC02WaitFor(d time.Duration, cond func() bool) bool {
	start := time.Now()
	for time.Since(start) < d {
		if cond() {
			return true
		}
		time.Sleep(50 * time.Millisecond)
	}
	return cond()
}

func TestVerifC02SubtreeComesDown(t *testing.T) {
	ncU, _, stopU, err := server.TestServer("2")
	if err != nil {
		t.Fatal("Error starting upstream test server: ", err)
	}
	defer stopU()
	ncD, rootD, stopD, err := server.TestServer()
	if err != nil {
		t.Fatal("Error starting downstream test server: ", err)
	}
	defer stopD()

	sync := client.Sync{ID: "sync-id", Parent: rootD.ID, Description: "sync to up",
		URI: server.TestServerOptions2.NatsServer, Period: 60}
	if err := client.SendNodeType(ncD, sync, "test"); err != nil {
		t.Fatal("Error sending sync node: ", err)
	}
	if !verifC02WaitFor(10*time.Second, func() bool {
		nodes, err := client.GetNodes(ncU, "all", rootD.ID, "", false)
		return err == nil && len(nodes) > 0
	}) {
		t.Skip("the device node never appeared upstream (link not established in this environment): scenario not reached")
	}

	// link down
	if err := client.SendNodePoint(ncD, "sync-id", data.Point{Type: data.PointTypeDisabled, Value: 1, Origin: "test"}, true); err != nil {
		t.Fatal(err)
	}
	time.Sleep(500 * time.Millisecond)

	// upstream gets a three-level subtree below the device node
	mk := func(id, parent, typ string) data.NodeEdge {
		return data.NodeEdge{ID: id, Parent: parent, Type: typ,
			Points: data.Points{{Type: data.PointTypeDescription, Text: id}}}
	}
	for _, n := range []data.NodeEdge{mk("g1", rootD.ID, data.NodeTypeGroup), mk("g2", "g1", data.NodeTypeGroup), mk("v1", "g2", data.NodeTypeVariable)} {
		if err := client.SendNode(ncU, n, "test"); err != nil {
			t.Fatal(err)
		}
	}
	// nothing of it may be downstream yet (the link is down)
	if nodes, _ := client.GetNodes(ncD, "all", "g1", "", false); len(nodes) > 0 {
		t.Skip("g1 reached the downstream instance although the sync node is disabled: scenario not reached")
	}

	// link up again: catch-up runs on reconnect
	if err := client.SendNodePoint(ncD, "sync-id", data.Point{Type: data.PointTypeDisabled, Value: 0, Origin: "test"}, true); err != nil {
		t.Fatal(err)
	}
	if !verifC02WaitFor(10*time.Second, func() bool {
		nodes, err := client.GetNodes(ncD, "all", "g1", "", false)
		return err == nil && len(nodes) > 0
	}) {
		t.Skip("the catch-up pass did not run within 10 s of re-enabling the link: scenario not reached")
	}
	// the same pass must have brought the rest of the subtree (it was sent node by node right after g1)
	ok := verifC02WaitFor(5*time.Second, func() bool {
		n2, e2 := client.GetNodes(ncD, "all", "g2", "", false)
		n3, e3 := client.GetNodes(ncD, "all", "v1", "", false)
		return e2 == nil && e3 == nil && len(n2) > 0 && len(n3) > 0
	})
	if !ok {
		n2, _ := client.GetNodes(ncD, "all", "g2", "", false)
		n3, _ := client.GetNodes(ncD, "all", "v1", "", false)
		t.Errorf("after catch-up the downstream instance has g1 but not the rest of the upstream subtree: g2 present=%v, v1 present=%v (the next sync pass is 60 s away)", len(n2) > 0, len(n3) > 0)
	}
}

// Scenario for finding D27 (C02, OPEN): a child deleted on the downstream instance while the link is down. After the
// catch-up pass both instances must agree on it (the deletion is the newest write to its tombstone point, so it should
// win on both sides). The catch-up lists only non-deleted children on both sides, takes the child for "missing
// locally" and copies the upstream's live copy down again - the accepted deletion is reverted or the instances keep
// disagreeing.
func TestVerifC02DeleteWhileDown(t *testing.T) {
	ncU, _, stopU, err := server.TestServer("2")
	if err != nil {
		t.Fatal("Error starting upstream test server: ", err)
	}
	defer stopU()
	ncD, rootD, stopD, err := server.TestServer()
	if err != nil {
		t.Fatal("Error starting downstream test server: ", err)
	}
	defer stopD()

	sync := client.Sync{ID: "sync-id", Parent: rootD.ID, Description: "sync to up",
		URI: server.TestServerOptions2.NatsServer, Period: 1}
	if err := client.SendNodeType(ncD, sync, "test"); err != nil {
		t.Fatal("Error sending sync node: ", err)
	}
	v := data.NodeEdge{ID: "varA", Parent: rootD.ID, Type: data.NodeTypeVariable,
		Points: data.Points{{Type: data.PointTypeDescription, Text: "varA"}}}
	if err := client.SendNode(ncD, v, "test"); err != nil {
		t.Fatal(err)
	}
	if !verifC02WaitFor(10*time.Second, func() bool {
		nodes, err := client.GetNodes(ncU, rootD.ID, "varA", "", false)
		return err == nil && len(nodes) > 0
	}) {
		t.Skip("varA never appeared upstream (link not established in this environment): scenario not reached")
	}

	// link down, delete varA downstream
	if err := client.SendNodePoint(ncD, "sync-id", data.Point{Type: data.PointTypeDisabled, Value: 1, Origin: "test"}, true); err != nil {
		t.Fatal(err)
	}
	time.Sleep(500 * time.Millisecond)
	if err := client.SendEdgePoint(ncD, "varA", rootD.ID, data.Point{Type: data.PointTypeTombstone, Value: 1, Origin: "test"}, true); err != nil {
		t.Fatal(err)
	}
	time.Sleep(200 * time.Millisecond)
	if nodes, _ := client.GetNodes(ncU, rootD.ID, "varA", "", false); len(nodes) == 0 {
		t.Skip("the deletion reached the upstream although the sync node is disabled: scenario not reached")
	}

	// link up: catch-up on reconnect and then every second
	if err := client.SendNodePoint(ncD, "sync-id", data.Point{Type: data.PointTypeDisabled, Value: 0, Origin: "test"}, true); err != nil {
		t.Fatal(err)
	}
	deleted := func(nc *nats.Conn) (bool, bool) {
		nodes, err := client.GetNodes(nc, rootD.ID, "varA", "", true)
		if err != nil || len(nodes) == 0 {
			return false, false
		}
		ts, _ := nodes[0].IsTombstone()
		return ts, true
	}
	ok := verifC02WaitFor(8*time.Second, func() bool {
		dD, okD := deleted(ncD)
		dU, okU := deleted(ncU)
		return okD && okU && dD && dU
	})
	if !ok {
		dD, _ := deleted(ncD)
		dU, _ := deleted(ncU)
		t.Errorf("a child deleted downstream while the link was down: 8 s after the link came back (sync period 1 s) it is deleted downstream=%v, upstream=%v; expected deleted on both (the deletion is the newest accepted write)", dD, dU)
	}
}
