package client

// Injected with `go test -overlay` by /verif/bin/check C16 (never written into /repo).
// BOUNDED leg of C16 (not a proof): frames written with CobsWrapper.Write come back from
// CobsWrapper.Read byte for byte, checked over the stated finite domain through the public API:
//   * every payload p (1 <= len <= maxShort) over the alphabet {0x00, 0x01, 0x02, 0xFE, 0xFF};
//   * block-boundary lengths 253..256 and 507..510, all-non-zero and with a zero at / next to each block edge;
// each frame is delivered to Read in one piece and byte by byte (the segmentation independence itself is the
// proved part of C16; the bounded part is the codec inverse decode(encode(p)) == p).

import (
	"bytes"
	"encoding/json"
	"fmt"
	"io"
	"os"
	"testing"
)

type verifChunkDev struct {
	wr     bytes.Buffer
	rd     []byte
	chunk  int
	closed bool
}

func (d *verifChunkDev) Write(p []byte) (int, error) { return d.wr.Write(p) }
func (d *verifChunkDev) Close() error                { d.closed = true; return nil }
func (d *verifChunkDev) Read(p []byte) (int, error) {
	if len(d.rd) == 0 {
		return 0, io.EOF
	}
	n := d.chunk
	if n > len(d.rd) {
		n = len(d.rd)
	}
	if n > len(p) {
		n = len(p)
	}
	copy(p, d.rd[:n])
	d.rd = d.rd[n:]
	return n, nil
}

func TestVerifCobsCodec(t *testing.T) {
	maxShort := 6
	if os.Getenv("VERIF_TIER") == "thorough" {
		maxShort = 8
	}
	alphabet := []byte{0x00, 0x01, 0x02, 0xFE, 0xFF}
	type fail struct {
		P     string `json:"p"`
		Chunk int    `json:"chunk"`
		Got   string `json:"got"`
		Err   string `json:"err,omitempty"`
		Kind  string `json:"kind"`
	}
	var fails []fail
	evals, nontrivial := 0, 0
	distinct := map[string]bool{}
	var samples []string
	const bufLen = 1024
	check := func(p []byte, kind string) {
		for _, chunk := range []int{bufLen, 1} {
			dev := &verifChunkDev{chunk: chunk}
			cw := NewCobsWrapper(dev, bufLen)
			if _, err := cw.Write(p); err != nil {
				t.Fatalf("Write: %v", err)
			}
			dev.rd = append([]byte{}, dev.wr.Bytes()...)
			evals++
			key := fmt.Sprintf("%x", p)
			if len(p) > 32 {
				key = fmt.Sprintf("%s/len%d/%x", kind, len(p), p[len(p)-3:])
			}
			if !distinct[key] {
				distinct[key] = true
				nontrivial++
			}
			if len(samples) < 5 && len(p) >= 3 && len(p) <= 6 && evals%1931 == 0 {
				samples = append(samples, fmt.Sprintf("p=%x wire=%x chunk=%d", p, dev.wr.Bytes(), chunk))
			}
			buf := make([]byte, bufLen)
			n, err := cw.Read(buf)
			if err != nil || !bytes.Equal(buf[:n], p) {
				f := fail{P: fmt.Sprintf("len=%d %x", len(p), trunc(p)), Chunk: chunk, Got: fmt.Sprintf("len=%d %x", n, trunc(buf[:n])), Kind: kind}
				if err != nil {
					f.Err = err.Error()
				}
				if len(fails) < 12 {
					fails = append(fails, f)
				} else {
					fails = append(fails, fail{})
				}
			}
		}
	}
	var gen func(p []byte, n int)
	gen = func(p []byte, n int) {
		if len(p) == n {
			check(append([]byte{}, p...), "short")
			return
		}
		for _, a := range alphabet {
			gen(append(p, a), n)
		}
	}
	for n := 1; n <= maxShort; n++ {
		gen(nil, n)
	}
	for _, n := range []int{253, 254, 255, 256, 507, 508, 509, 510} {
		p := make([]byte, n)
		for i := range p {
			p[i] = byte(1 + i%250)
		}
		check(append([]byte{}, p...), "boundary-nonzero")
		for _, z := range []int{252, 253, 254, 255, 256, 506, 507, 508, 509} {
			if z < n {
				q := append([]byte{}, p...)
				q[z] = 0
				check(q, "boundary-zero")
			}
		}
	}
	res := map[string]interface{}{
		"evaluations": evals, "distinct_nontrivial": nontrivial, "mismatches": len(fails), "first_mismatches": fails,
		"rule":    fmt.Sprintf("Write then Read through the public API, each frame delivered whole and byte-by-byte: all payloads over {00,01,02,FE,FF} of length 1..%d (exhaustive), plus block-boundary lengths 253..256/507..510 all-non-zero and with one zero at offsets 252..256/506..509; non-trivial = distinct payloads", maxShort),
		"samples": samples, "exhaustive": true,
	}
	b, _ := json.Marshal(res)
	if out := os.Getenv("VERIF_COBS_OUT"); out != "" {
		os.WriteFile(out, b, 0o644)
	}
	fmt.Println("COBS-CODEC", string(b))
	if len(fails) > 0 {
		t.Fatalf("%d mismatches, first: %+v", len(fails), fails[0])
	}
}

func trunc(b []byte) []byte {
	if len(b) > 24 {
		return append(append([]byte{}, b[:8]...), b[len(b)-8:]...)
	}
	return b
}
