package data

// Injected with `go test -overlay` (never written into /repo).
//
// BOUNDED leg of C10 (an exhaustive enumeration over a stated finite domain, NOT a proof):
// "typed configuration survives Encode/Decode and Diff/Merge".
//
//   contract A:  Decode(Encode(x)) == x                                  (into a zero value of the type)
//   contract B:  y := Decode(Encode(a)); MergePoints(id, DiffPoints(a,b), &y); y == b
//
//   contract C:  folding points into a DESCENDANT of a configuration (FindNodeInStruct):
//                  C1 MergePoints(n, pts, &cfg) == nil and cfg afterwards is cfg with the struct whose
//                     id is n replaced by what MergePoints(n, pts, &thatStructAlone) makes of it,
//                     everything else deep-equal to before;
//                  C2 the same for MergeEdgePoints(n, parentOfN, pts, &cfg); with a wrong parent id
//                     the call returns an error and cfg is unchanged;
//                  C3 an id that does not occur in cfg (and "") gives an error and cfg is unchanged.
//                  Every evaluation is repeated verifC10FoldReps times (FindNodeInStruct ranges over
//                  a Go map of child slices, so a dependence on the iteration order has to show).
//
// evaluated on the real Encode / Decode / DiffPoints / MergePoints / MergeEdgePoints for a family
// of struct types that covers every supported field kind, over boundary values, and (B) over all
// ordered pairs of those values; (C) over configuration types with one, two and three child slices
// and a grandchild level, every node id in them and a batch alphabet per struct type.
//
// Equality rule: reflect.DeepEqual, except that a nil and an empty slice / map are the same value.
// That is what the library's own tests do (TestDecodeAllTombstonePointArray and TestMergeComplex
// only check len(...) == 0 after deleting every entry; Decode never allocates an empty slice and
// re-slices to length 0 when everything is deleted).
//
// Domain restrictions (all taken from the library's documentation, none discovered by failure):
//   * integers within +/-(2^53-1) (Encode rejects anything larger with an error);
//   * at most 1000 elements per slice / map;
//   * map keys are non-empty (docs/ref/data.md "The Point Key field constraint": "" is an invalid
//     key and is normalised to "0");
//   * no NaN (equality);
//   * DiffPoints only looks at `point:` fields by design (TestDiffPointsComplex: "ignore
//     edgepoints"), there is no edge diff in the library. For edge fields contract B therefore
//     produces the edge points with DiffPoints on a tag twin of the struct (same fields, `point:`
//     tags with the same names) and applies them with MergeEdgePoints;
//   * `child:` lists are exercised on Decode only (Encode ignores them); in addition a diff of one
//     child is merged into the decoded tree by node id (MergePoints -> FindNodeInStruct).
//
// Env: VERIF_TIER = quick (default) | thorough, VERIF_SEED (default 1, only selects the quick
// slice of the pair domain), VERIF_C10_OUT = file that receives the JSON result.

import (
	"crypto/sha256"
	"encoding/json"
	"fmt"
	"hash/fnv"
	"math"
	"os"
	"reflect"
	"sort"
	"strconv"
	"strings"
	"testing"
	"time"
)

const (
	verifC10MaxSafe = 1<<53 - 1
	verifC10ID      = "id-1"
	verifC10Par     = "par-1"
)

// ---------------------------------------------------------------------------------------------
// the family of configuration types

// one field of kind T
type verifC10One[T any] struct {
	ID     string `node:"id"`
	Parent string `node:"parent"`
	V      T      `point:"v"`
}

// every scalar kind side by side
type verifC10Scalars struct {
	ID     string  `node:"id"`
	Parent string  `node:"parent"`
	B      bool    `point:"b"`
	I      int     `point:"i"`
	I8     int8    `point:"i8"`
	I16    int16   `point:"i16"`
	I32    int32   `point:"i32"`
	I64    int64   `point:"i64"`
	U      uint    `point:"u"`
	U8     uint8   `point:"u8"`
	U16    uint16  `point:"u16"`
	U32    uint32  `point:"u32"`
	U64    uint64  `point:"u64"`
	F32    float32 `point:"f32"`
	F64    float64 `point:"f64"`
	S      string  `point:"s"`
}

type verifC10Ptrs struct {
	ID     string   `node:"id"`
	Parent string   `node:"parent"`
	PB     *bool    `point:"pb"`
	PI     *int     `point:"pi"`
	PF     *float64 `point:"pf"`
	PS     *string  `point:"ps"`
}

type verifC10Colls struct {
	ID     string             `node:"id"`
	Parent string             `node:"parent"`
	SB     []bool             `point:"sb"`
	SI     []int              `point:"si"`
	SF     []float64          `point:"sf"`
	SS     []string           `point:"ss"`
	AB     [7]bool            `point:"ab"`
	AI     [2]int             `point:"ai"`
	AF     [1]float64         `point:"af"`
	AS     [2]string          `point:"as"`
	MB     map[string]bool    `point:"mb"`
	MI     map[string]int     `point:"mi"`
	MF     map[string]float64 `point:"mf"`
	MS     map[string]string  `point:"ms"`
}

// a "flat" struct: keys come from the `point` tag or from the camel-cased field name
type verifC10Flat struct {
	Flag     bool    `point:"flag"`
	Count    int     `point:"count"`
	Ratio    float64 // key "ratio"
	Text     string  `point:"text"`
	LongName int32   // key "longName"
	ID       string  `node:"id"` // key "id" (like TestType nested in testTypeComplex)
	U8       uint8   `point:"u8"`
}

type verifC10Nest struct {
	ID     string        `node:"id"`
	Parent string        `node:"parent"`
	Desc   string        `point:"description"`
	N      verifC10Flat  `point:"nested"`
	P      *verifC10Flat `point:"pflat"`
}

// edge fields and their `point:` tag twin (struct conversion ignores tags)
type verifC10Edge struct {
	ID     string            `node:"id"`
	Parent string            `node:"parent"`
	Desc   string            `point:"description"`
	Role   string            `edgepoint:"role"`
	Tomb   bool              `edgepoint:"tombstone"`
	Order  int               `edgepoint:"order"`
	Weight float64           `edgepoint:"weight"`
	PInt   *int              `edgepoint:"nullEdge"`
	PF32   *float32          `edgepoint:"value"`
	Vals   []int32           `edgepoint:"testValue"`
	Days   [2]bool           `edgepoint:"day"`
	Tags   map[string]string `edgepoint:"tag"`
	EFlat  verifC10Flat      `edgepoint:"eflat"`
	PFlat  *verifC10Flat     `edgepoint:"epflat"`
}

type verifC10EdgeTwin struct {
	ID     string
	Parent string
	Desc   string
	Role   string            `point:"role"`
	Tomb   bool              `point:"tombstone"`
	Order  int               `point:"order"`
	Weight float64           `point:"weight"`
	PInt   *int              `point:"nullEdge"`
	PF32   *float32          `point:"value"`
	Vals   []int32           `point:"testValue"`
	Days   [2]bool           `point:"day"`
	Tags   map[string]string `point:"tag"`
	EFlat  verifC10Flat      `point:"eflat"`
	PFlat  *verifC10Flat     `point:"epflat"`
}

// child lists (Decode only)
type verifC10Grand struct {
	ID     string `node:"id"`
	Parent string `node:"parent"`
	Desc   string `point:"description"`
	On     *bool  `point:"on"`
}

type verifC10Kid struct {
	ID     string          `node:"id"`
	Parent string          `node:"parent"`
	Desc   string          `point:"description"`
	Count  int             `point:"count"`
	Vals   []int           `point:"val"`
	Role   string          `edgepoint:"role"`
	Grand  []verifC10Grand `child:"verifC10Grand"`
}

type verifC10Other struct {
	ID     string  `node:"id"`
	Parent string  `node:"parent"`
	Level  float64 `point:"level"`
}

type verifC10Parent struct {
	ID     string          `node:"id"`
	Parent string          `node:"parent"`
	Desc   string          `point:"description"`
	Kids   []verifC10Kid   `child:"verifC10Kid"`
	Others []verifC10Other `child:"verifC10Other"`
}

// contract C: configuration types whose descendants are addressed by node id.
// leaf with node and edge fields
type verifC10FLeaf struct {
	ID     string  `node:"id"`
	Parent string  `node:"parent"`
	Desc   string  `point:"description"`
	Value  float64 `point:"value"`
	Count  int     `point:"count"`
	On     bool    `point:"on"`
	Role   string  `edgepoint:"role"`
	Order  int     `edgepoint:"order"`
}

// like client.Condition (no edge fields)
type verifC10FCond struct {
	ID       string  `node:"id"`
	Parent   string  `node:"parent"`
	Desc     string  `point:"description"`
	CondType string  `point:"conditionType"`
	MinVal   float64 `point:"minValue"`
	Active   bool    `point:"active"`
}

// like client.Action
type verifC10FAct struct {
	ID       string  `node:"id"`
	Parent   string  `node:"parent"`
	Desc     string  `point:"description"`
	Action   string  `point:"action"`
	Val      float64 `point:"value"`
	Disabled bool    `edgepoint:"disabled"`
}

// ONE child slice
type verifC10FOne struct {
	ID     string          `node:"id"`
	Parent string          `node:"parent"`
	Desc   string          `point:"description"`
	Period int             `point:"period"`
	Role   string          `edgepoint:"role"`
	Leaves []verifC10FLeaf `child:"leaf"`
}

// TWO child slices of different child types
type verifC10FTwo struct {
	ID     string          `node:"id"`
	Parent string          `node:"parent"`
	Desc   string          `point:"description"`
	Active bool            `point:"active"`
	Tomb   bool            `edgepoint:"tombstone"`
	Conds  []verifC10FCond `child:"condition"`
	Acts   []verifC10FAct  `child:"action"`
}

// THREE child slices, two of them of the same child type (the shape of client.Rule)
type verifC10FRule3 struct {
	ID           string          `node:"id"`
	Parent       string          `node:"parent"`
	Desc         string          `point:"description"`
	Disabled     bool            `point:"disabled"`
	Active       bool            `point:"active"`
	Error        string          `point:"error"`
	Conds        []verifC10FCond `child:"condition"`
	Acts         []verifC10FAct  `child:"action"`
	ActsInactive []verifC10FAct  `child:"actionInactive"`
}

// a grandchild level: the child struct has two child slices of its own
type verifC10FGroup struct {
	ID      string          `node:"id"`
	Parent  string          `node:"parent"`
	Desc    string          `point:"description"`
	Level   float64         `point:"level"`
	Order   int             `edgepoint:"order"`
	Members []verifC10FLeaf `child:"leaf"`
	Conds   []verifC10FCond `child:"condition"`
}

type verifC10FDeep struct {
	ID     string           `node:"id"`
	Parent string           `node:"parent"`
	Desc   string           `point:"description"`
	Role   string           `edgepoint:"role"`
	Groups []verifC10FGroup `child:"group"`
	Leaves []verifC10FLeaf  `child:"leaf"`
}

// ---------------------------------------------------------------------------------------------
// bookkeeping

type verifC10Mismatch struct {
	Contract string `json:"contract"`
	Type     string `json:"type"`
	A        string `json:"a"`
	B        string `json:"b,omitempty"`
	Points   string `json:"points,omitempty"`
	Expected string `json:"expected"`
	Got      string `json:"got"`
	Error    string `json:"error,omitempty"`
}

type verifC10Key struct {
	contract byte
	typ      string
	a, b     [32]byte
}

type verifC10State struct {
	thorough    bool
	seed        uint64
	evaluations int
	distinct    map[verifC10Key]struct{}
	samples     []string
	mismatches  int
	panics      int
	first       []verifC10Mismatch
	classes     map[string]int
	kindsA      map[string]int
	kindsB      map[string]int
	pairDomain  int // |ordered pair domain| of contract B
	pairsRun    int
	valuesA     int
	types       []string
	// contract C (fold into a descendant)
	firstC      int
	foldEvals   int
	foldCfgs    int
	foldTargets int                 // (cfg, node id) pairs addressed by C1
	foldETarget int                 // (cfg, node id, parent id) triples addressed by C2
	foldShared  int                 // C1 targets skipped because the id occurs twice in the cfg
	foldSub     map[string]int      // evaluations per sub-contract
	foldLoose   map[string]struct{} // (sub-contract, type, configuration, target, batch): reported only
	foldDist    int
	foldTypes   []string
	foldBatches map[string]int
}

func (st *verifC10State) fail(m verifC10Mismatch) {
	st.mismatches++
	st.classes[verifC10Class(m)]++
	if len(st.first) < 10 {
		st.first = append(st.first, m)
	}
}

// failC: contract C enumerates its configurations from the smallest to the largest, so the first
// mismatch of a class is its smallest reproducer; only that one is listed (at most 10 classes).
func (st *verifC10State) failC(m verifC10Mismatch) {
	st.mismatches++
	cls := verifC10Class(m)
	st.classes[cls]++
	if st.classes[cls] == 1 && st.firstC < 10 {
		st.firstC++
		st.first = append(st.first, m)
	}
}

func verifC10Class(m verifC10Mismatch) string {
	cls := []byte(m.Contract + " " + m.Type + ": ")
	if m.Error == "" {
		cls = append(cls, "wrong value"...)
	}
	for i := 0; i < len(m.Error); i++ { // digits -> N so that errors group
		c := m.Error[i]
		if c >= '0' && c <= '9' {
			if cls[len(cls)-1] != 'N' {
				cls = append(cls, 'N')
			}
			continue
		}
		cls = append(cls, c)
	}
	return string(cls)
}

func (st *verifC10State) pick(tname string, i, j int) bool {
	if st.thorough || i == 0 || j == 0 {
		return true
	}
	h := fnv.New64a()
	fmt.Fprintf(h, "%d|%s|%d|%d", st.seed, tname, i, j)
	return h.Sum64()%100 < 15
}

// verifC10Repr writes a deterministic rendering of v. nil and empty slices / maps are rendered the
// same (see the equality rule). In short mode long strings and long collections are elided.
func verifC10Repr(sb *strings.Builder, v reflect.Value, short bool) {
	switch v.Kind() {
	case reflect.Pointer:
		if v.IsNil() {
			sb.WriteString("nil")
			return
		}
		sb.WriteByte('&')
		verifC10Repr(sb, v.Elem(), short)
	case reflect.Slice, reflect.Array:
		n := v.Len()
		sb.WriteByte('[')
		for i := 0; i < n; i++ {
			if short && n > 8 && i == 3 {
				fmt.Fprintf(sb, " ...(len %d)...", n)
				i = n - 3
				continue
			}
			if i > 0 {
				sb.WriteByte(' ')
			}
			verifC10Repr(sb, v.Index(i), short)
		}
		sb.WriteByte(']')
	case reflect.Map:
		keys := make([]string, 0, v.Len())
		for _, k := range v.MapKeys() {
			keys = append(keys, k.String())
		}
		sort.Strings(keys)
		sb.WriteString("map[")
		for i, k := range keys {
			if short && len(keys) > 8 && i == 3 {
				fmt.Fprintf(sb, " ...(len %d)...", len(keys))
				break
			}
			if i > 0 {
				sb.WriteByte(' ')
			}
			sb.WriteString(strconv.Quote(k))
			sb.WriteByte(':')
			verifC10Repr(sb, v.MapIndex(reflect.ValueOf(k)), short)
		}
		sb.WriteByte(']')
	case reflect.Struct:
		sb.WriteByte('{')
		t := v.Type()
		for i := 0; i < v.NumField(); i++ {
			if i > 0 {
				sb.WriteByte(' ')
			}
			sb.WriteString(t.Field(i).Name)
			sb.WriteByte(':')
			verifC10Repr(sb, v.Field(i), short)
		}
		sb.WriteByte('}')
	case reflect.String:
		s := v.String()
		if short && len(s) > 48 {
			fmt.Fprintf(sb, "%s...(len %d)", strconv.Quote(s[:24]), len(s))
		} else {
			sb.WriteString(strconv.Quote(s))
		}
	case reflect.Float32:
		sb.WriteString(strconv.FormatFloat(v.Float(), 'g', -1, 32))
	case reflect.Float64:
		sb.WriteString(strconv.FormatFloat(v.Float(), 'g', -1, 64))
	case reflect.Bool:
		sb.WriteString(strconv.FormatBool(v.Bool()))
	case reflect.Int, reflect.Int8, reflect.Int16, reflect.Int32, reflect.Int64:
		sb.WriteString(strconv.FormatInt(v.Int(), 10))
	case reflect.Uint, reflect.Uint8, reflect.Uint16, reflect.Uint32, reflect.Uint64:
		sb.WriteString(strconv.FormatUint(v.Uint(), 10))
	default:
		fmt.Fprintf(sb, "<%v>", v.Kind())
	}
}

func verifC10Full(x any) string {
	var sb strings.Builder
	verifC10Repr(&sb, reflect.ValueOf(x), false)
	return sb.String()
}

func verifC10Short(x any) string {
	var sb strings.Builder
	verifC10Repr(&sb, reflect.ValueOf(x), true)
	s := sb.String()
	if len(s) > 420 {
		s = s[:400] + fmt.Sprintf("...(%d chars)", len(s))
	}
	return s
}

func verifC10PointsStr(pts []Point) string {
	var sb strings.Builder
	sb.WriteByte('[')
	for i, p := range pts {
		if i >= 8 {
			fmt.Fprintf(&sb, " ...(%d points)", len(pts))
			break
		}
		if i > 0 {
			sb.WriteByte(' ')
		}
		fmt.Fprintf(&sb, "%s/%s", p.Type, p.Key)
		switch {
		case p.Tombstone != 0:
			fmt.Fprintf(&sb, "=TOMBSTONE(%d)", p.Tombstone)
		case p.Text != "":
			t := p.Text
			if len(t) > 24 {
				t = t[:24] + "..."
			}
			fmt.Fprintf(&sb, "=%q", t)
		default:
			fmt.Fprintf(&sb, "=%v", p.Value)
		}
	}
	sb.WriteByte(']')
	return sb.String()
}

// verifC10Eq is reflect.DeepEqual with nil == empty for slices and maps.
func verifC10Eq(a, b reflect.Value) bool {
	switch a.Kind() {
	case reflect.Pointer:
		if a.IsNil() || b.IsNil() {
			return a.IsNil() == b.IsNil()
		}
		return verifC10Eq(a.Elem(), b.Elem())
	case reflect.Slice, reflect.Array:
		if a.Len() != b.Len() {
			return false
		}
		for i := 0; i < a.Len(); i++ {
			if !verifC10Eq(a.Index(i), b.Index(i)) {
				return false
			}
		}
		return true
	case reflect.Map:
		if a.Len() != b.Len() {
			return false
		}
		iter := a.MapRange()
		for iter.Next() {
			bv := b.MapIndex(iter.Key())
			if !bv.IsValid() || !verifC10Eq(iter.Value(), bv) {
				return false
			}
		}
		return true
	case reflect.Struct:
		for i := 0; i < a.NumField(); i++ {
			if !verifC10Eq(a.Field(i), b.Field(i)) {
				return false
			}
		}
		return true
	default:
		return reflect.DeepEqual(a.Interface(), b.Interface())
	}
}

func verifC10Equal[T any](a, b T) bool {
	if reflect.DeepEqual(a, b) {
		return true
	}
	return verifC10Eq(reflect.ValueOf(a), reflect.ValueOf(b))
}

func verifC10IDs(x any) (string, string) {
	v := reflect.ValueOf(x)
	id := v.FieldByName("ID").String()
	par := ""
	if f := v.FieldByName("Parent"); f.IsValid() {
		par = f.String()
	}
	return id, par
}

// ---------------------------------------------------------------------------------------------
// the contracts

func verifC10RoundTrip[T any](x T) (T, error) {
	var y T
	ne, err := Encode(x)
	if err != nil {
		return y, fmt.Errorf("Encode: %w", err)
	}
	if err := Decode(NodeEdgeChildren{NodeEdge: ne}, &y); err != nil {
		return y, fmt.Errorf("Decode: %w", err)
	}
	return y, nil
}

type verifC10Spec[T any] struct {
	name   string
	kinds  []string
	vals   []T // contract A and all ordered pairs for contract B; vals[0] is the zero config
	aOnly  []T // contract A only (e.g. other ids)
	edge   func(a, b T) (Points, error)
	sample bool
	// minimum number of diff points for the sample (to show an interesting case)
	sampleMin int
}

func verifC10Run[T any](st *verifC10State, sp verifC10Spec[T]) {
	var zero T
	tname := sp.name
	st.types = append(st.types, tname)
	all := append(append([]T{}, sp.vals...), sp.aOnly...)
	full := make([]string, len(all))
	hash := make([][32]byte, len(all))
	isZero := make([]bool, len(all))
	for i, x := range all {
		full[i] = verifC10Full(x)
		hash[i] = sha256.Sum256([]byte(full[i]))
		// "zero" ignores the node id / parent: a config whose every point / edge field is zero
		zx := reflect.New(reflect.TypeOf(x)).Elem()
		zx.Set(reflect.ValueOf(x))
		if f := zx.FieldByName("ID"); f.IsValid() {
			f.SetString("")
		}
		if f := zx.FieldByName("Parent"); f.IsValid() {
			f.SetString("")
		}
		isZero[i] = verifC10Equal(zx.Interface().(T), zero)
	}

	// contract A
	for i, x := range all {
		st.evaluations++
		st.valuesA++
		for _, k := range sp.kinds {
			st.kindsA[k]++
		}
		if !isZero[i] {
			st.distinct[verifC10Key{contract: 'A', typ: tname, a: hash[i]}] = struct{}{}
		}
		var got T
		var err error
		var pan any
		func() {
			defer func() {
				if r := recover(); r != nil {
					pan = r
				}
			}()
			got, err = verifC10RoundTrip(x)
		}()
		if pan != nil {
			st.panics++
			err = fmt.Errorf("panic: %v", pan)
		}
		if err != nil || !verifC10Equal(got, x) {
			m := verifC10Mismatch{Contract: "A", Type: tname, A: verifC10Short(x), Expected: verifC10Short(x), Got: verifC10Short(got)}
			if err != nil {
				m.Error = err.Error()
			}
			st.fail(m)
		}
	}

	// contract B
	sampled := !sp.sample
	n := len(sp.vals)
	st.pairDomain += n * n
	for i, a := range sp.vals {
		id, par := verifC10IDs(a)
		for j, b := range sp.vals {
			if !st.pick(tname, i, j) {
				continue
			}
			st.evaluations++
			st.pairsRun++
			for _, k := range sp.kinds {
				st.kindsB[k]++
			}
			nontrivial := hash[i] != hash[j]
			if nontrivial {
				st.distinct[verifC10Key{contract: 'B', typ: tname, a: hash[i], b: hash[j]}] = struct{}{}
			}
			var y T
			var pts, epts Points
			var err error
			var pan any
			func() {
				defer func() {
					if r := recover(); r != nil {
						pan = r
					}
				}()
				y, err = verifC10RoundTrip(a)
				if err != nil {
					return
				}
				pts, err = DiffPoints(a, b)
				if err != nil {
					err = fmt.Errorf("DiffPoints: %w", err)
					return
				}
				if err = MergePoints(id, pts, &y); err != nil {
					err = fmt.Errorf("MergePoints: %w", err)
					return
				}
				if sp.edge != nil {
					epts, err = sp.edge(a, b)
					if err != nil {
						err = fmt.Errorf("DiffPoints(twin): %w", err)
						return
					}
					if err = MergeEdgePoints(id, par, epts, &y); err != nil {
						err = fmt.Errorf("MergeEdgePoints: %w", err)
						return
					}
				}
			}()
			if pan != nil {
				st.panics++
				err = fmt.Errorf("panic: %v", pan)
			}
			ptsStr := ""
			if err != nil || !verifC10Equal(y, b) || (!sampled && nontrivial) {
				ptsStr = verifC10PointsStr(pts)
				if sp.edge != nil {
					ptsStr += " edge" + verifC10PointsStr(epts)
				}
			}
			if err != nil || !verifC10Equal(y, b) {
				m := verifC10Mismatch{Contract: "B", Type: tname, A: verifC10Short(a), B: verifC10Short(b),
					Points: ptsStr, Expected: verifC10Short(b), Got: verifC10Short(y)}
				if err != nil {
					m.Error = err.Error()
				}
				st.fail(m)
			} else if !sampled && nontrivial && i > j && j > 1 && len(pts)+len(epts) >= sp.sampleMin && len(st.samples) < 5 {
				sampled = true
				st.samples = append(st.samples, fmt.Sprintf("B %s: a=%s b=%s diff=%s -> merged==b",
					tname, verifC10Short(a), verifC10Short(b), ptsStr))
			}
		}
	}

	// none of the library calls may have modified its inputs
	for i, x := range all {
		if verifC10Full(x) != full[i] {
			st.fail(verifC10Mismatch{Contract: "inputs-unchanged", Type: tname, A: full[i][:verifC10Min(len(full[i]), 300)],
				Expected: "input value unchanged by Encode/Decode/DiffPoints/Merge*", Got: verifC10Short(x)})
		}
	}
}

func verifC10MapStr(m map[string]int) string {
	keys := make([]string, 0, len(m))
	for k := range m {
		keys = append(keys, k)
	}
	sort.Strings(keys)
	parts := make([]string, len(keys))
	for i, k := range keys {
		parts[i] = fmt.Sprintf("%s=%d", k, m[k])
	}
	return strings.Join(parts, ", ")
}

func verifC10Min(a, b int) int {
	if a < b {
		return a
	}
	return b
}

// ---------------------------------------------------------------------------------------------
// value enumeration helpers

func verifC10Wrap[T any](vals []T) []verifC10One[T] {
	out := make([]verifC10One[T], len(vals))
	for i, v := range vals {
		out[i] = verifC10One[T]{ID: verifC10ID, Parent: verifC10Par, V: v}
	}
	return out
}

// a few extra ids for contract A
func verifC10OtherIDs[T any](vals []T) []verifC10One[T] {
	var out []verifC10One[T]
	for i, v := range vals {
		switch i % 3 {
		case 0:
			out = append(out, verifC10One[T]{ID: "", Parent: "", V: v})
		case 1:
			out = append(out, verifC10One[T]{ID: "другой-id", Parent: "", V: v})
		default:
			out = append(out, verifC10One[T]{ID: "x", Parent: "p/ä", V: v})
		}
		if i >= 5 {
			break
		}
	}
	return out
}

func verifC10Ptr[T any](v T) *T { return &v }

func verifC10PtrVals[T any](vals []T) []*T {
	out := []*T{nil}
	for _, v := range vals {
		out = append(out, verifC10Ptr(v))
	}
	return out
}

// all sequences of length 0..maxLen over alpha: nil first, then an empty non-nil slice, then the rest
func verifC10Seqs[T any](alpha []T, maxLen int) [][]T {
	out := [][]T{nil, {}}
	var gen func(prefix []T, n int)
	gen = func(prefix []T, n int) {
		if len(prefix) == n {
			out = append(out, append([]T{}, prefix...))
			return
		}
		for _, a := range alpha {
			gen(append(prefix, a), n)
		}
	}
	for n := 1; n <= maxLen; n++ {
		gen(nil, n)
	}
	return out
}

func verifC10Big[T any](n int, alpha []T, shift int) []T {
	out := make([]T, n)
	for i := range out {
		out[i] = alpha[(i*7+i/5+shift)%len(alpha)]
	}
	return out
}

func verifC10Arr3[T any](alpha []T) [][3]T {
	var out [][3]T
	for _, a := range alpha {
		for _, b := range alpha {
			for _, c := range alpha {
				out = append(out, [3]T{a, b, c})
			}
		}
	}
	return out
}

// all maps with at most maxLen of the given (non-empty) keys and values from alpha
func verifC10Maps[T any](keys []string, alpha []T, maxLen int) []map[string]T {
	out := []map[string]T{nil, {}}
	var gen func(from int, cur map[string]T)
	gen = func(from int, cur map[string]T) {
		if len(cur) > 0 {
			cp := make(map[string]T, len(cur))
			for k, v := range cur {
				cp[k] = v
			}
			out = append(out, cp)
		}
		if len(cur) == maxLen {
			return
		}
		for ki := from; ki < len(keys); ki++ {
			for _, v := range alpha {
				cur[keys[ki]] = v
				gen(ki+1, cur)
			}
			delete(cur, keys[ki])
		}
	}
	gen(0, map[string]T{})
	return out
}

type verifC10FV struct {
	name string
	vals []any
}

func verifC10Any[T any](xs ...T) []any {
	out := make([]any, len(xs))
	for i, x := range xs {
		out[i] = x
	}
	return out
}

// verifC10Combos: base, then every field set to each of its values with the others at base
// ("one-hot"), then diagonals (field f takes its (d+shift*f)-th value).
func verifC10Combos[T any](base T, fvs []verifC10FV) []T {
	out := []T{base}
	set := func(dst *T, name string, val any) {
		reflect.ValueOf(dst).Elem().FieldByName(name).Set(reflect.ValueOf(val))
	}
	maxLen := 0
	for _, fv := range fvs {
		if len(fv.vals) > maxLen {
			maxLen = len(fv.vals)
		}
		for _, val := range fv.vals {
			x := base
			set(&x, fv.name, val)
			out = append(out, x)
		}
	}
	for shift := 0; shift < 2; shift++ {
		for d := 0; d < maxLen; d++ {
			x := base
			for fi, fv := range fvs {
				set(&x, fv.name, fv.vals[(d+shift*fi)%len(fv.vals)])
			}
			out = append(out, x)
		}
	}
	return out
}

func verifC10Tree(p verifC10Parent) (NodeEdgeChildren, error) {
	ne, err := Encode(p)
	if err != nil {
		return NodeEdgeChildren{}, err
	}
	root := NodeEdgeChildren{NodeEdge: ne}
	// kids and others interleaved: Decode has to regroup them by type, keeping the order
	for i := 0; i < len(p.Kids) || i < len(p.Others); i++ {
		if i < len(p.Kids) {
			k := p.Kids[i]
			kne, err := Encode(k)
			if err != nil {
				return root, err
			}
			kn := NodeEdgeChildren{NodeEdge: kne}
			for _, g := range k.Grand {
				gne, err := Encode(g)
				if err != nil {
					return root, err
				}
				kn.Children = append(kn.Children, NodeEdgeChildren{NodeEdge: gne})
			}
			root.Children = append(root.Children, kn)
		}
		if i < len(p.Others) {
			one, err := Encode(p.Others[i])
			if err != nil {
				return root, err
			}
			root.Children = append(root.Children, NodeEdgeChildren{NodeEdge: one})
		}
	}
	return root, nil
}

func verifC10Children(st *verifC10State) {
	tname := "verifC10Parent(child lists)"
	st.types = append(st.types, tname)
	tr, fa := true, false
	grands := []verifC10Grand{
		{ID: "g1", Parent: "k1", Desc: "grand one", On: &tr},
		{ID: "g2", Parent: "k1", Desc: "", On: nil},
		{ID: "g3", Parent: "k2", Desc: "внук", On: &fa},
	}
	kidVals := []verifC10Kid{
		{ID: "k1", Parent: "p1"},
		{ID: "k1", Parent: "p1", Desc: "kid one", Count: 3, Vals: []int{1, 2, 3}, Role: "user"},
		{ID: "k1", Parent: "p1", Desc: "ребёнок", Count: -verifC10MaxSafe, Vals: []int{0}, Role: "admin"},
		{ID: "k1", Parent: "p1", Desc: "", Count: 1, Vals: []int{5, 0, 0}, Role: ""},
		{ID: "k1", Parent: "p1", Desc: "x", Count: 0, Vals: nil, Role: "user"},
	}
	mk := func(id string, k verifC10Kid, g []verifC10Grand) verifC10Kid {
		k.ID = id
		k.Grand = g
		return k
	}
	others := []verifC10Other{{ID: "o1", Parent: "p1", Level: 0.5}, {ID: "o2", Parent: "p1", Level: -1e300}, {ID: "o3", Parent: "p1"}}
	var parents []verifC10Parent
	for nk := 0; nk <= 3; nk++ {
		for no := 0; no <= 3; no++ {
			for variant := 0; variant < len(kidVals); variant++ {
				p := verifC10Parent{ID: "p1", Parent: "root", Desc: fmt.Sprintf("parent %d/%d/%d ü", nk, no, variant)}
				for i := 0; i < nk; i++ {
					var g []verifC10Grand
					switch (i + variant) % 3 {
					case 1:
						g = grands[:1]
					case 2:
						g = grands
					}
					p.Kids = append(p.Kids, mk(fmt.Sprintf("k%d", i+1), kidVals[(i+variant)%len(kidVals)], g))
				}
				p.Others = append(p.Others, others[:no]...)
				parents = append(parents, p)
			}
		}
	}
	for _, p := range parents {
		// contract A on the tree
		st.evaluations++
		st.valuesA++
		st.kindsA["child"]++
		full := verifC10Full(p)
		st.distinct[verifC10Key{contract: 'A', typ: tname, a: sha256.Sum256([]byte(full))}] = struct{}{}
		var got verifC10Parent
		var err error
		var pan any
		func() {
			defer func() {
				if r := recover(); r != nil {
					pan = r
				}
			}()
			var tree NodeEdgeChildren
			tree, err = verifC10Tree(p)
			if err != nil {
				return
			}
			err = Decode(tree, &got)
		}()
		if pan != nil {
			st.panics++
			err = fmt.Errorf("panic: %v", pan)
		}
		if err != nil || !verifC10Equal(got, p) {
			m := verifC10Mismatch{Contract: "A(child)", Type: tname, A: verifC10Short(p), Expected: verifC10Short(p), Got: verifC10Short(got)}
			if err != nil {
				m.Error = err.Error()
			}
			st.fail(m)
		}
		if len(st.samples) < 5 && len(p.Kids) == 2 && len(p.Others) == 1 && len(p.Kids[1].Grand) == 3 && !strings.Contains(strings.Join(st.samples, ""), "A(child)") {
			st.samples = append(st.samples, fmt.Sprintf("A(child) %s: x=%s -> Decode(tree of Encode(x), Encode(kids), Encode(grandkids))==x", tname, verifC10Short(p)))
		}
		// contract B on one child of the decoded tree, addressed by node id
		for ki := range p.Kids {
			for vi, kv := range kidVals {
				st.pairDomain++
				if !st.pick(tname, ki+1, vi+1) {
					continue
				}
				st.evaluations++
				st.pairsRun++
				st.kindsB["child"]++
				target := mk(p.Kids[ki].ID, kv, p.Kids[ki].Grand)
				target.Role = p.Kids[ki].Role // edge field: not part of DiffPoints
				want := p
				want.Kids = append([]verifC10Kid{}, p.Kids...)
				want.Kids[ki] = target
				if !verifC10Equal(p.Kids[ki], target) {
					st.distinct[verifC10Key{contract: 'B', typ: tname, a: sha256.Sum256([]byte(full + "#" + strconv.Itoa(ki))),
						b: sha256.Sum256([]byte(verifC10Full(target)))}] = struct{}{}
				}
				var y verifC10Parent
				var pts Points
				err, pan = nil, nil
				func() {
					defer func() {
						if r := recover(); r != nil {
							pan = r
						}
					}()
					var tree NodeEdgeChildren
					tree, err = verifC10Tree(p)
					if err != nil {
						return
					}
					if err = Decode(tree, &y); err != nil {
						return
					}
					pts, err = DiffPoints(p.Kids[ki], target)
					if err != nil {
						return
					}
					err = MergePoints(target.ID, pts, &y)
				}()
				if pan != nil {
					st.panics++
					err = fmt.Errorf("panic: %v", pan)
				}
				if err != nil || !verifC10Equal(y, want) {
					m := verifC10Mismatch{Contract: "B(child)", Type: tname, A: verifC10Short(p), B: fmt.Sprintf("Kids[%d] := %s", ki, verifC10Short(target)),
						Points: verifC10PointsStr(pts), Expected: verifC10Short(want), Got: verifC10Short(y)}
					if err != nil {
						m.Error = err.Error()
					}
					st.fail(m)
				}
			}
		}
	}
}

// ---------------------------------------------------------------------------------------------
// contract C: folding points into a descendant of a configuration

const verifC10FoldReps = 8

type verifC10FNode struct {
	path   []int // (field index, element index) pairs from the top struct
	where  string
	id     string
	parent string
	typ    reflect.Type
}

// verifC10FWalk lists every struct of the tree under v (the harness's own walk over `child:` fields)
func verifC10FWalk(v reflect.Value, path []int, where string, out []verifC10FNode) []verifC10FNode {
	t := v.Type()
	nd := verifC10FNode{path: append([]int{}, path...), where: where, typ: t}
	if where == "" {
		nd.where = "top"
	}
	for i := 0; i < t.NumField(); i++ {
		switch t.Field(i).Tag.Get("node") {
		case "id":
			nd.id = v.Field(i).String()
		case "parent":
			nd.parent = v.Field(i).String()
		}
	}
	out = append(out, nd)
	for i := 0; i < t.NumField(); i++ {
		if t.Field(i).Tag.Get("child") == "" || t.Field(i).Type.Kind() != reflect.Slice {
			continue
		}
		for j := 0; j < v.Field(i).Len(); j++ {
			out = verifC10FWalk(v.Field(i).Index(j), append(path, i, j), fmt.Sprintf("%s.%s[%d]", where, t.Field(i).Name, j), out)
		}
	}
	return out
}

func verifC10FResolve(root reflect.Value, path []int) reflect.Value {
	v := root
	for k := 0; k+1 < len(path); k += 2 {
		v = v.Field(path[k]).Index(path[k+1])
	}
	return v
}

// verifC10FClone makes an addressable deep copy (nil stays nil, empty stays empty)
func verifC10FClone(src reflect.Value) reflect.Value {
	dst := reflect.New(src.Type()).Elem()
	verifC10FCopy(dst, src)
	return dst
}

func verifC10FCopy(dst, src reflect.Value) {
	switch src.Kind() {
	case reflect.Struct:
		for i := 0; i < src.NumField(); i++ {
			verifC10FCopy(dst.Field(i), src.Field(i))
		}
	case reflect.Slice:
		if src.IsNil() {
			return
		}
		dst.Set(reflect.MakeSlice(src.Type(), src.Len(), src.Len()))
		for i := 0; i < src.Len(); i++ {
			verifC10FCopy(dst.Index(i), src.Index(i))
		}
	case reflect.Array:
		for i := 0; i < src.Len(); i++ {
			verifC10FCopy(dst.Index(i), src.Index(i))
		}
	case reflect.Pointer:
		if src.IsNil() {
			return
		}
		dst.Set(reflect.New(src.Type().Elem()))
		verifC10FCopy(dst.Elem(), src.Elem())
	case reflect.Map:
		if src.IsNil() {
			return
		}
		dst.Set(reflect.MakeMapWithSize(src.Type(), src.Len()))
		it := src.MapRange()
		for it.Next() {
			dst.SetMapIndex(it.Key(), verifC10FClone(it.Value()))
		}
	default:
		dst.Set(src)
	}
}

type verifC10FSet struct {
	field int
	val   reflect.Value
}

type verifC10FBatch struct {
	name string
	pts  []Point
	set  []verifC10FSet // what the batch means, written down independently of Decode
}

// verifC10FBatches: the batch alphabet of a struct type for tag `point` or `edgepoint`: for every
// declared bool / int / float64 / string field a new value (key "0"), a second value (key ""; the
// zero value for bool and string) and a tombstone; all fields at once; first field new + last field
// tombstone; the empty batch; a point of an undeclared type.
func verifC10FBatches(t reflect.Type, tag string) []verifC10FBatch {
	var out []verifC10FBatch
	var all verifC10FBatch
	all.name = "all fields new"
	var firstNew, lastTomb *verifC10FBatch
	for i := 0; i < t.NumField(); i++ {
		sf := t.Field(i)
		typ := sf.Tag.Get(tag)
		if typ == "" {
			continue
		}
		var p1, p2 Point
		var v1, v2 any
		switch sf.Type.Kind() {
		case reflect.String:
			txt := "new " + typ + " ✓"
			p1, v1 = Point{Type: typ, Key: "0", Text: txt}, txt
			p2, v2 = Point{Type: typ, Value: 5}, ""
		case reflect.Bool:
			p1, v1 = Point{Type: typ, Key: "0", Value: 1}, true
			p2, v2 = Point{Type: typ, Text: "true"}, false
		case reflect.Int:
			p1, v1 = Point{Type: typ, Key: "0", Value: 7}, 7
			p2, v2 = Point{Type: typ, Value: -3}, -3
		case reflect.Float64:
			p1, v1 = Point{Type: typ, Key: "0", Value: 7.5}, 7.5
			p2, v2 = Point{Type: typ, Value: -0.25}, -0.25
		default:
			continue
		}
		tomb := Point{Type: typ, Key: "0", Value: 9, Text: "gone", Tombstone: 1}
		s1 := verifC10FSet{i, reflect.ValueOf(v1)}
		s2 := verifC10FSet{i, reflect.ValueOf(v2)}
		s0 := verifC10FSet{i, reflect.Zero(sf.Type)}
		out = append(out,
			verifC10FBatch{name: typ + " new", pts: []Point{p1}, set: []verifC10FSet{s1}},
			verifC10FBatch{name: typ + " second value", pts: []Point{p2}, set: []verifC10FSet{s2}},
			verifC10FBatch{name: typ + " tombstone", pts: []Point{tomb}, set: []verifC10FSet{s0}})
		all.pts = append(all.pts, p1)
		all.set = append(all.set, s1)
		if firstNew == nil {
			firstNew = &verifC10FBatch{pts: []Point{p1}, set: []verifC10FSet{s1}}
		} else {
			lastTomb = &verifC10FBatch{pts: []Point{tomb}, set: []verifC10FSet{s0}}
		}
	}
	if len(all.pts) > 1 {
		out = append(out, all)
		out = append(out, verifC10FBatch{name: "first new + last tombstone",
			pts: append(append([]Point{}, lastTomb.pts...), firstNew.pts...),
			set: append(append([]verifC10FSet{}, lastTomb.set...), firstNew.set...)})
	}
	if len(out) == 0 {
		return nil // no declared field with this tag
	}
	// the batches that change nothing come last: the first mismatch of a class then shows a batch with an effect
	return append(out, verifC10FBatch{name: "empty"},
		verifC10FBatch{name: "undeclared type", pts: []Point{{Type: "verifC10NoSuchType", Key: "0", Value: 1, Text: "x"}}})
}

// verifC10FFew: the error sub-contracts (wrong parent, unknown id) use three batches of the alphabet:
// the first field's new value, the last batch with an effect (the combined one, or the tombstone of
// the only field) and the empty batch.
func verifC10FFew(b []verifC10FBatch) []verifC10FBatch {
	if len(b) == 0 {
		return nil
	}
	return []verifC10FBatch{b[0], b[len(b)-3], b[len(b)-2]}
}

// verifC10FoldRun evaluates C1-C3 on every configuration of cfgs (sorted by size first).
func verifC10FoldRun[T any](st *verifC10State, tname string, cfgs []T) {
	st.types = append(st.types, tname)
	size := func(c T) int { return len(verifC10FWalk(reflect.ValueOf(c), nil, "", nil)) }
	sort.SliceStable(cfgs, func(i, j int) bool { return size(cfgs[i]) < size(cfgs[j]) })
	st.foldTypes = append(st.foldTypes, fmt.Sprintf("%s (%d configurations, 1..%d nodes)", tname, len(cfgs), size(cfgs[len(cfgs)-1])))
	batchCache := map[string][]verifC10FBatch{}
	batches := func(t reflect.Type, tag string) []verifC10FBatch {
		k := t.Name() + "/" + tag
		if b, ok := batchCache[k]; ok {
			return b
		}
		b := verifC10FBatches(t, tag)
		batchCache[k] = b
		st.foldBatches[strings.TrimPrefix(t.Name(), "verifC10")+"/"+tag] = len(b)
		return b
	}
	sampled := false

	for ci := range cfgs {
		cfg := cfgs[ci]
		orig := reflect.ValueOf(&cfg).Elem()
		full := verifC10Full(cfg)
		short := verifC10Short(cfg)
		nodes := verifC10FWalk(orig, nil, "", nil)
		st.foldCfgs++
		idCount := map[string]int{}
		pairs := map[[2]string]bool{}
		for _, nd := range nodes {
			idCount[nd.id]++
			pairs[[2]string{nd.id, nd.parent}] = true
		}
		top := nodes[0]

		// run evaluates one (sub-contract, target, batch) verifC10FoldReps times
		run := func(sub, target, looseID string, b verifC10FBatch, edge bool, expected reflect.Value, wantErr, nontrivial bool, call func(dst any) error) bool {
			ptsStr := verifC10PointsStr(b.pts)
			if edge {
				ptsStr = "edge" + ptsStr
			}
			if nontrivial {
				// distinct: (sub-contract, type, target id[/parent], batch); neither the repetitions nor the
				// configuration around the target are part of the key
				k := verifC10Key{contract: 'C', typ: tname, a: sha256.Sum256([]byte(sub + "#" + looseID)), b: sha256.Sum256([]byte(ptsStr))}
				if _, ok := st.distinct[k]; !ok {
					st.distinct[k] = struct{}{}
					st.foldDist++
				}
				st.foldLoose[tname+"#"+sub+"#"+target+"#"+ptsStr+"#"+full] = struct{}{}
			}
			allOK := true
			for rep := 1; rep <= verifC10FoldReps; rep++ {
				st.evaluations++
				st.foldEvals++
				st.foldSub[sub]++
				got := verifC10FClone(orig)
				var err error
				var pan any
				func() {
					defer func() {
						if r := recover(); r != nil {
							pan = r
						}
					}()
					err = call(got.Addr().Interface())
				}()
				same := reflect.DeepEqual(got.Interface(), expected.Interface())
				msg := ""
				switch {
				case pan != nil:
					st.panics++
					msg = fmt.Sprintf("panic: %v", pan)
				case err != nil && !wantErr:
					msg = err.Error()
				case err == nil && wantErr:
					msg = "no error returned for an id / parent id that does not occur in the configuration"
					if !same {
						msg += " (and the configuration was changed)"
					}
				case !same && wantErr:
					msg = "error returned, but the configuration was changed"
				}
				if msg != "" || !same {
					allOK = false
					st.failC(verifC10Mismatch{Contract: "C:" + sub, Type: tname, A: short,
						B:      fmt.Sprintf("%s (repetition %d of %d)", target, rep, verifC10FoldReps),
						Points: ptsStr, Expected: verifC10Short(expected.Interface()), Got: verifC10Short(got.Interface()), Error: msg})
				}
			}
			return allOK
		}

		// reference: the struct at nd alone, after the batch; checked against the independent reading of the batch
		reference := func(sub string, nd verifC10FNode, b verifC10FBatch, edge bool) (exp reflect.Value, nontrivial bool) {
			exp = verifC10FClone(orig)
			tv := verifC10FResolve(exp, nd.path)
			alone := verifC10FClone(tv)
			indep := verifC10FClone(tv)
			for _, s := range b.set {
				indep.Field(s.field).Set(s.val.Convert(indep.Field(s.field).Type()))
			}
			var err error
			if edge {
				err = MergeEdgePoints(nd.id, nd.parent, b.pts, alone.Addr().Interface())
			} else {
				err = MergePoints(nd.id, b.pts, alone.Addr().Interface())
			}
			if err != nil || !reflect.DeepEqual(alone.Interface(), indep.Interface()) {
				m := verifC10Mismatch{Contract: "C:" + sub + "-reference(struct alone)", Type: tname, A: verifC10Short(tv.Interface()),
					B: fmt.Sprintf("id=%q parent=%q", nd.id, nd.parent), Points: verifC10PointsStr(b.pts),
					Expected: verifC10Short(indep.Interface()), Got: verifC10Short(alone.Interface())}
				if err != nil {
					m.Error = err.Error()
				}
				st.failC(m)
			}
			nontrivial = !reflect.DeepEqual(alone.Interface(), tv.Interface())
			tv.Set(alone)
			return exp, nontrivial
		}

		for _, nd := range nodes {
			nd := nd
			tdesc := fmt.Sprintf("id=%q = %s (%s)", nd.id, nd.where, strings.TrimPrefix(nd.typ.Name(), "verifC10"))
			// C1
			if idCount[nd.id] > 1 {
				st.foldShared++
			} else {
				st.foldTargets++
				for _, b := range batches(nd.typ, "point") {
					b := b
					exp, nontrivial := reference("C1", nd, b, false)
					ok := run("C1", tdesc, nd.id, b, false, exp, false, nontrivial, func(dst any) error { return MergePoints(nd.id, b.pts, dst) })
					if ok && !sampled && nontrivial && len(nd.path) == 4 && len(b.pts) > 1 {
						sampled = true
						st.samples = append(st.samples, fmt.Sprintf("C1 %s: cfg=%s MergePoints(%q, %s, &cfg) x%d -> nil, only %s changed (== MergePoints on that struct alone): %s",
							tname, short, nd.id, verifC10PointsStr(b.pts), verifC10FoldReps, nd.where, verifC10Short(verifC10FResolve(exp, nd.path).Interface())))
					}
				}
			}
			// C2
			eb := batches(nd.typ, "edgepoint")
			if len(eb) == 0 {
				continue
			}
			st.foldETarget++
			edesc := fmt.Sprintf("id=%q parent=%q = %s (%s)", nd.id, nd.parent, nd.where, strings.TrimPrefix(nd.typ.Name(), "verifC10"))
			wrong := []string{"no-such-parent", nd.id}
			for _, o := range nodes {
				if o.id != nd.parent && o.id != nd.id && !pairs[[2]string{nd.id, o.id}] {
					wrong = append(wrong, o.id) // another id of the configuration that is not a parent of nd
					break
				}
			}
			for _, b := range eb {
				b := b
				exp, nontrivial := reference("C2", nd, b, true)
				run("C2", edesc, nd.id+"/"+nd.parent, b, true, exp, false, nontrivial, func(dst any) error { return MergeEdgePoints(nd.id, nd.parent, b.pts, dst) })
			}
			for _, b := range verifC10FFew(eb) {
				b := b
				_, nontrivial := reference("C2", nd, b, true)
				for _, wp := range wrong {
					wp := wp
					run("C2-wrong-parent", fmt.Sprintf("id=%q parent=%q (the parent of %s is %q)", nd.id, wp, nd.where, nd.parent), nd.id+"/"+wp, b, true,
						orig, true, nontrivial, func(dst any) error { return MergeEdgePoints(nd.id, wp, b.pts, dst) })
				}
			}
		}

		// C3: ids that do not occur (the parent id of the top struct occurs only as a parent)
		unknown := []string{"", "no-such-id", top.id + "x"}
		if idCount[top.parent] == 0 && top.parent != "" {
			unknown = append(unknown, top.parent)
		}
		for _, uid := range unknown {
			uid := uid
			for _, b := range verifC10FFew(batches(top.typ, "point")) {
				b := b
				_, nontrivial := reference("C3", top, b, false)
				run("C3", fmt.Sprintf("MergePoints id=%q (not in the configuration)", uid), uid, b, false, orig, true, nontrivial,
					func(dst any) error { return MergePoints(uid, b.pts, dst) })
			}
			for _, par := range []string{"", top.id, top.parent} {
				par := par
				for _, b := range verifC10FFew(batches(top.typ, "edgepoint")) {
					b := b
					_, nontrivial := reference("C3", top, b, true)
					run("C3", fmt.Sprintf("MergeEdgePoints id=%q parent=%q (id not in the configuration)", uid, par), uid+"/"+par, b, true, orig, true, nontrivial,
						func(dst any) error { return MergeEdgePoints(uid, par, b.pts, dst) })
				}
			}
		}

		if verifC10Full(cfg) != full {
			st.failC(verifC10Mismatch{Contract: "C:inputs-unchanged", Type: tname, A: full[:verifC10Min(len(full), 300)],
				Expected: "the harness's own copy of the configuration is never written", Got: verifC10Short(cfg)})
		}
	}
}

func verifC10FLeafN(id, parent string, i int) verifC10FLeaf {
	return verifC10FLeaf{ID: id, Parent: parent, Desc: "leaf " + id + " ü", Value: float64(i) + 0.5, Count: i + 1, On: i%2 == 0,
		Role: []string{"user", "admin", ""}[i%3], Order: i}
}

func verifC10FCondN(id, parent string, i int) verifC10FCond {
	return verifC10FCond{ID: id, Parent: parent, Desc: "cond " + id, CondType: []string{"pointValue", "schedule"}[i%2], MinVal: float64(10 * (i + 1)), Active: i%2 == 1}
}

func verifC10FActN(id, parent string, i int) verifC10FAct {
	return verifC10FAct{ID: id, Parent: parent, Desc: "action " + id, Action: []string{"setValue", "notify", "playAudio"}[i%3], Val: float64(i) - 1.5, Disabled: i%2 == 1}
}

func verifC10Fold(st *verifC10State) {
	st.foldSub = map[string]int{}
	st.foldLoose = map[string]struct{}{}
	st.foldBatches = map[string]int{}
	maxN := 2 // children per slice
	if st.thorough {
		maxN = 3
	}

	// ---- one child slice
	{
		var cfgs []verifC10FOne
		for n := 0; n <= maxN+1; n++ {
			c := verifC10FOne{ID: "t1", Parent: "root", Desc: fmt.Sprintf("one/%d", n), Period: 60, Role: "admin"}
			for i := 0; i < n; i++ {
				c.Leaves = append(c.Leaves, verifC10FLeafN(fmt.Sprintf("l%d", i+1), c.ID, i))
			}
			cfgs = append(cfgs, c)
		}
		cfgs = append(cfgs, verifC10FOne{ID: "t1", Parent: "root", Desc: "one/empty non-nil slice", Leaves: []verifC10FLeaf{}})
		// ids as the store makes them (UUIDs), one id a prefix of another
		u := "7b1c0d3e-5f6a-4b2c-9d8e-0123456789a"
		cfgs = append(cfgs, verifC10FOne{ID: u, Parent: "root", Desc: "one/uuid", Leaves: []verifC10FLeaf{
			verifC10FLeafN(u+"b", u, 0), verifC10FLeafN(u+"bc", u, 1), verifC10FLeafN("ид-ü", u, 2)}})
		verifC10FoldRun(st, "F.One(1 child slice)", cfgs)
	}

	// ---- two child slices of different child types
	{
		var cfgs []verifC10FTwo
		for nc := 0; nc <= maxN; nc++ {
			for na := 0; na <= maxN; na++ {
				c := verifC10FTwo{ID: "t1", Parent: "root", Desc: fmt.Sprintf("two/%d/%d", nc, na), Active: na%2 == 1}
				for i := 0; i < nc; i++ {
					c.Conds = append(c.Conds, verifC10FCondN(fmt.Sprintf("c%d", i+1), c.ID, i))
				}
				for i := 0; i < na; i++ {
					c.Acts = append(c.Acts, verifC10FActN(fmt.Sprintf("a%d", i+1), c.ID, i))
				}
				cfgs = append(cfgs, c)
			}
		}
		verifC10FoldRun(st, "F.Two(2 child slices)", cfgs)
	}

	// ---- three child slices (client.Rule: conditions, actions, actionsInactive)
	{
		var cfgs []verifC10FRule3
		for nc := 0; nc <= maxN; nc++ {
			for na := 0; na <= maxN; na++ {
				for ni := 0; ni <= maxN; ni++ {
					if !st.thorough && (nc == 2 || na == 2 || ni == 2) && !(nc == na && na == ni) && nc+na+ni != 2 {
						continue // quick: all shapes over 0..1, (2,0,0) (0,2,0) (0,0,2) and (2,2,2)
					}
					c := verifC10FRule3{ID: "r1", Parent: "root", Desc: fmt.Sprintf("rule/%d/%d/%d", nc, na, ni), Active: nc%2 == 1, Error: "err"}
					for i := 0; i < nc; i++ {
						c.Conds = append(c.Conds, verifC10FCondN(fmt.Sprintf("c%d", i+1), c.ID, i))
					}
					for i := 0; i < na; i++ {
						c.Acts = append(c.Acts, verifC10FActN(fmt.Sprintf("a%d", i+1), c.ID, i))
					}
					for i := 0; i < ni; i++ {
						c.ActsInactive = append(c.ActsInactive, verifC10FActN(fmt.Sprintf("i%d", i+1), c.ID, i+1))
					}
					cfgs = append(cfgs, c)
				}
			}
		}
		verifC10FoldRun(st, "F.Rule3(3 child slices, as client.Rule)", cfgs)
	}

	// ---- grandchildren: groups (each with members and conditions) next to leaves
	{
		shapes := [][2]int{{0, 0}, {1, 0}, {0, 1}, {1, 1}, {2, 1}} // (members, conditions) of a group
		group := func(gi int, sh [2]int, parent string) verifC10FGroup {
			g := verifC10FGroup{ID: fmt.Sprintf("g%d", gi+1), Parent: parent, Desc: fmt.Sprintf("group %d", gi+1), Level: float64(gi) + 0.25, Order: gi + 1}
			for i := 0; i < sh[0]; i++ {
				g.Members = append(g.Members, verifC10FLeafN(fmt.Sprintf("%sm%d", g.ID, i+1), g.ID, i+gi))
			}
			for i := 0; i < sh[1]; i++ {
				g.Conds = append(g.Conds, verifC10FCondN(fmt.Sprintf("%sc%d", g.ID, i+1), g.ID, i+gi))
			}
			return g
		}
		mk := func(shs [][2]int, nl int) verifC10FDeep {
			c := verifC10FDeep{ID: "d1", Parent: "root", Desc: fmt.Sprintf("deep/%v/%d", shs, nl), Role: "user"}
			for gi, sh := range shs {
				c.Groups = append(c.Groups, group(gi, sh, c.ID))
			}
			for i := 0; i < nl; i++ {
				c.Leaves = append(c.Leaves, verifC10FLeafN(fmt.Sprintf("l%d", i+1), c.ID, i+1))
			}
			return c
		}
		var cfgs []verifC10FDeep
		for nl := 0; nl <= 2; nl++ {
			cfgs = append(cfgs, mk(nil, nl))
			if !st.thorough && nl == 1 {
				continue // quick: 0 and 2 leaves next to the groups
			}
			for i, s1 := range shapes {
				cfgs = append(cfgs, mk([][2]int{s1}, nl))
				for j, s2 := range shapes {
					if !st.thorough && j != (i+2)%len(shapes) {
						continue // quick: 5 of the 25 ordered pairs of group shapes
					}
					cfgs = append(cfgs, mk([][2]int{s1, s2}, nl))
				}
			}
		}
		cfgs = append(cfgs, mk([][2]int{{2, 1}, {0, 0}, {1, 1}}, 1))
		if st.thorough {
			cfgs = append(cfgs, mk([][2]int{{1, 1}, {2, 1}, {1, 0}}, 2), mk([][2]int{{0, 1}, {0, 0}, {2, 1}}, 0))
			three := [][2]int{{0, 0}, {1, 1}, {2, 1}}
			for _, s1 := range three {
				for _, s2 := range three {
					for _, s3 := range three {
						cfgs = append(cfgs, mk([][2]int{s1, s2, s3}, 1))
					}
				}
			}
		}
		// one node with two parents (the same id below g1 and below g2, different edge fields): only
		// MergeEdgePoints (id + parent) addresses it, MergePoints is not evaluated for that id
		for _, nl := range []int{0, 1} {
			c := mk([][2]int{{1, 1}, {1, 0}}, nl)
			c.Desc += "/shared"
			s1 := verifC10FLeafN("s1", "g1", 3)
			s2 := s1
			s2.Parent, s2.Role, s2.Order = "g2", "viewer", 9
			c.Groups[0].Members = append(c.Groups[0].Members, s1)
			c.Groups[1].Members = append([]verifC10FLeaf{s2}, c.Groups[1].Members...)
			cfgs = append(cfgs, c)
		}
		verifC10FoldRun(st, "F.Deep(2 child slices, grandchildren below a child with 2 child slices)", cfgs)
	}
}

// ---------------------------------------------------------------------------------------------

func TestVerifC10Roundtrip(t *testing.T) {
	start := time.Now()
	st := &verifC10State{
		thorough: os.Getenv("VERIF_TIER") == "thorough",
		seed:     1,
		distinct: map[verifC10Key]struct{}{},
		classes:  map[string]int{},
		kindsA:   map[string]int{},
		kindsB:   map[string]int{},
	}
	if s := os.Getenv("VERIF_SEED"); s != "" {
		if v, err := strconv.ParseUint(s, 10, 64); err == nil {
			st.seed = v
		}
	}

	longStr := strings.Repeat("long-строка-", 400) // 6800 bytes, non-ASCII inside
	bools := []bool{false, true}
	ints := []int{0, 1, -1, verifC10MaxSafe, -verifC10MaxSafe, math.MaxInt32, math.MinInt32, 1000}
	int8s := []int8{0, 1, -1, math.MaxInt8, math.MinInt8}
	int16s := []int16{0, 1, -1, math.MaxInt16, math.MinInt16}
	int32s := []int32{0, 1, -1, math.MaxInt32, math.MinInt32}
	int64s := []int64{0, 1, -1, verifC10MaxSafe, -verifC10MaxSafe, 1 << 31, -(1 << 31) - 1}
	uints := []uint{0, 1, verifC10MaxSafe, math.MaxUint32}
	uint8s := []uint8{0, 1, math.MaxUint8}
	uint16s := []uint16{0, 1, math.MaxUint16}
	uint32s := []uint32{0, 1, math.MaxUint32}
	uint64s := []uint64{0, 1, verifC10MaxSafe, 1 << 32}
	float32s := []float32{0, 1, -1, 0.5, -2.75, 0.1, math.MaxFloat32, -math.MaxFloat32, math.SmallestNonzeroFloat32}
	float64s := []float64{0, 1, -1, 0.1, 15.43, -1234.5678, 1 << 53, math.MaxFloat64, -math.MaxFloat64,
		math.SmallestNonzeroFloat64, math.Inf(1), math.Inf(-1)}
	strs := []string{"", "a", "0", " ", "héllo wörld ✓ 日本語", "tab\tnl\nnul\x00 invalid\xff", longStr}

	// element alphabets for collections
	eInts := []int{0, 1, -1, verifC10MaxSafe, -verifC10MaxSafe}
	eFloats := []float64{0, 1.5, -0.1, math.MaxFloat64, -1234.5678}
	eStrs := []string{"", "a", "日本 ✓", "b c", "0"}
	mapKeys := []string{"a", "b", "0", "ключ/key"}

	// ---- scalars
	verifC10Run(st, verifC10Spec[verifC10One[bool]]{name: "One[bool]", kinds: []string{"bool"}, vals: verifC10Wrap(bools), aOnly: verifC10OtherIDs(bools)})
	verifC10Run(st, verifC10Spec[verifC10One[int]]{name: "One[int]", kinds: []string{"int"}, vals: verifC10Wrap(ints), aOnly: verifC10OtherIDs(ints)})
	verifC10Run(st, verifC10Spec[verifC10One[int8]]{name: "One[int8]", kinds: []string{"int8"}, vals: verifC10Wrap(int8s)})
	verifC10Run(st, verifC10Spec[verifC10One[int16]]{name: "One[int16]", kinds: []string{"int16"}, vals: verifC10Wrap(int16s)})
	verifC10Run(st, verifC10Spec[verifC10One[int32]]{name: "One[int32]", kinds: []string{"int32"}, vals: verifC10Wrap(int32s)})
	verifC10Run(st, verifC10Spec[verifC10One[int64]]{name: "One[int64]", kinds: []string{"int64"}, vals: verifC10Wrap(int64s)})
	verifC10Run(st, verifC10Spec[verifC10One[uint]]{name: "One[uint]", kinds: []string{"uint"}, vals: verifC10Wrap(uints)})
	verifC10Run(st, verifC10Spec[verifC10One[uint8]]{name: "One[uint8]", kinds: []string{"uint8"}, vals: verifC10Wrap(uint8s)})
	verifC10Run(st, verifC10Spec[verifC10One[uint16]]{name: "One[uint16]", kinds: []string{"uint16"}, vals: verifC10Wrap(uint16s)})
	verifC10Run(st, verifC10Spec[verifC10One[uint32]]{name: "One[uint32]", kinds: []string{"uint32"}, vals: verifC10Wrap(uint32s)})
	verifC10Run(st, verifC10Spec[verifC10One[uint64]]{name: "One[uint64]", kinds: []string{"uint64"}, vals: verifC10Wrap(uint64s)})
	verifC10Run(st, verifC10Spec[verifC10One[float32]]{name: "One[float32]", kinds: []string{"float32"}, vals: verifC10Wrap(float32s)})
	verifC10Run(st, verifC10Spec[verifC10One[float64]]{name: "One[float64]", kinds: []string{"float64"}, vals: verifC10Wrap(float64s), aOnly: verifC10OtherIDs(float64s)})
	verifC10Run(st, verifC10Spec[verifC10One[string]]{name: "One[string]", kinds: []string{"string"}, vals: verifC10Wrap(strs), aOnly: verifC10OtherIDs(strs)})

	scalarKinds := []string{"bool", "int", "int8", "int16", "int32", "int64", "uint", "uint8", "uint16", "uint32", "uint64", "float32", "float64", "string"}
	verifC10Run(st, verifC10Spec[verifC10Scalars]{name: "Scalars(14 fields)", kinds: scalarKinds,
		vals: verifC10Combos(verifC10Scalars{ID: verifC10ID, Parent: verifC10Par}, []verifC10FV{
			{"B", verifC10Any(bools...)}, {"I", verifC10Any(ints...)}, {"I8", verifC10Any(int8s...)}, {"I16", verifC10Any(int16s...)},
			{"I32", verifC10Any(int32s...)}, {"I64", verifC10Any(int64s...)}, {"U", verifC10Any(uints...)}, {"U8", verifC10Any(uint8s...)},
			{"U16", verifC10Any(uint16s...)}, {"U32", verifC10Any(uint32s...)}, {"U64", verifC10Any(uint64s...)},
			{"F32", verifC10Any(float32s...)}, {"F64", verifC10Any(float64s...)}, {"S", verifC10Any(strs...)},
		})})

	// ---- pointers
	pBools := verifC10PtrVals(bools)
	pInts := verifC10PtrVals([]int{0, 1, -1, verifC10MaxSafe, -verifC10MaxSafe})
	pFloats := verifC10PtrVals([]float64{0, -2.5, 0.1, math.MaxFloat64})
	pStrs := verifC10PtrVals([]string{"", "a", "héllo ✓ 日本語", longStr})
	verifC10Run(st, verifC10Spec[verifC10One[*bool]]{name: "One[*bool]", kinds: []string{"*bool"}, vals: verifC10Wrap(pBools)})
	verifC10Run(st, verifC10Spec[verifC10One[*int]]{name: "One[*int]", kinds: []string{"*int"}, vals: verifC10Wrap(pInts)})
	verifC10Run(st, verifC10Spec[verifC10One[*float64]]{name: "One[*float64]", kinds: []string{"*float64"}, vals: verifC10Wrap(pFloats)})
	verifC10Run(st, verifC10Spec[verifC10One[*string]]{name: "One[*string]", kinds: []string{"*string"}, vals: verifC10Wrap(pStrs), sample: true})
	{
		var vals []verifC10Ptrs
		for _, pb := range pBools {
			for _, pi := range pInts[:4] {
				for _, pf := range pFloats[:3] {
					for _, ps := range pStrs[:4] {
						vals = append(vals, verifC10Ptrs{ID: verifC10ID, Parent: verifC10Par, PB: pb, PI: pi, PF: pf, PS: ps})
					}
				}
			}
		}
		verifC10Run(st, verifC10Spec[verifC10Ptrs]{name: "Ptrs(4 fields)", kinds: []string{"*bool", "*int", "*float64", "*string"}, vals: vals})
	}

	// ---- slices: every sequence of length 0..3 over the element alphabet, nil and empty, 999, 1000, 1000'
	sBools := append(verifC10Seqs(bools, 3), verifC10Big(999, bools, 0), verifC10Big(1000, bools, 0), verifC10Big(1000, bools, 1))
	sInts := append(verifC10Seqs(eInts, 3), verifC10Big(999, ints, 0), verifC10Big(1000, ints, 0), verifC10Big(1000, ints, 3))
	sFloats := append(verifC10Seqs(eFloats, 3), verifC10Big(999, float64s, 0), verifC10Big(1000, float64s, 0), verifC10Big(1000, float64s, 5))
	sStrs := append(verifC10Seqs(eStrs, 3), verifC10Big(999, strs[:6], 0), verifC10Big(1000, strs[:6], 0), verifC10Big(1000, strs[:6], 2))
	verifC10Run(st, verifC10Spec[verifC10One[[]bool]]{name: "One[[]bool]", kinds: []string{"[]bool"}, vals: verifC10Wrap(sBools)})
	verifC10Run(st, verifC10Spec[verifC10One[[]int]]{name: "One[[]int]", kinds: []string{"[]int"}, vals: verifC10Wrap(sInts), sample: true, sampleMin: 2})
	verifC10Run(st, verifC10Spec[verifC10One[[]float64]]{name: "One[[]float64]", kinds: []string{"[]float64"}, vals: verifC10Wrap(sFloats)})
	verifC10Run(st, verifC10Spec[verifC10One[[]string]]{name: "One[[]string]", kinds: []string{"[]string"}, vals: verifC10Wrap(sStrs)})

	// ---- arrays
	verifC10Run(st, verifC10Spec[verifC10One[[3]bool]]{name: "One[[3]bool]", kinds: []string{"[N]bool"}, vals: verifC10Wrap(verifC10Arr3(bools))})
	verifC10Run(st, verifC10Spec[verifC10One[[3]int]]{name: "One[[3]int]", kinds: []string{"[N]int"}, vals: verifC10Wrap(verifC10Arr3(eInts))})
	verifC10Run(st, verifC10Spec[verifC10One[[3]float64]]{name: "One[[3]float64]", kinds: []string{"[N]float64"}, vals: verifC10Wrap(verifC10Arr3(eFloats))})
	verifC10Run(st, verifC10Spec[verifC10One[[3]string]]{name: "One[[3]string]", kinds: []string{"[N]string"}, vals: verifC10Wrap(verifC10Arr3(eStrs))})

	// ---- maps: every map with 0..3 of 4 keys, nil and empty; one map of 1000 and one of 999 entries
	mBools := verifC10Maps(mapKeys, bools, 3)
	mInts := verifC10Maps(mapKeys, eInts[1:4], 3)
	mFloats := verifC10Maps(mapKeys, eFloats[:3], 3)
	mStrs := verifC10Maps(mapKeys, eStrs[:3], 3)
	big1000, big999 := map[string]int{}, map[string]int{}
	for i := 0; i < 1000; i++ {
		big1000["k"+strconv.Itoa(i)] = ints[i%len(ints)]
		if i != 500 {
			big999["k"+strconv.Itoa(i)] = ints[(i+i/7)%len(ints)]
		}
	}
	// two mid-size maps with disjoint key sets (501 + 500 keys)
	mid501, mid500 := map[string]int{}, map[string]int{}
	for i := 0; i < 501; i++ {
		mid501["p"+strconv.Itoa(i)] = i - 250
		if i < 500 {
			mid500["q"+strconv.Itoa(i)] = i
		}
	}
	mInts = append(mInts, big999, big1000, mid501, mid500)
	verifC10Run(st, verifC10Spec[verifC10One[map[string]bool]]{name: "One[map[string]bool]", kinds: []string{"map[string]bool"}, vals: verifC10Wrap(mBools)})
	verifC10Run(st, verifC10Spec[verifC10One[map[string]int]]{name: "One[map[string]int]", kinds: []string{"map[string]int"}, vals: verifC10Wrap(mInts)})
	verifC10Run(st, verifC10Spec[verifC10One[map[string]float64]]{name: "One[map[string]float64]", kinds: []string{"map[string]float64"}, vals: verifC10Wrap(mFloats)})
	verifC10Run(st, verifC10Spec[verifC10One[map[string]string]]{name: "One[map[string]string]", kinds: []string{"map[string]string"}, vals: verifC10Wrap(mStrs), sample: true, sampleMin: 3})

	// ---- all collection kinds side by side
	verifC10Run(st, verifC10Spec[verifC10Colls]{name: "Colls(12 fields)",
		kinds: []string{"[]bool", "[]int", "[]float64", "[]string", "[N]bool", "[N]int", "[N]float64", "[N]string",
			"map[string]bool", "map[string]int", "map[string]float64", "map[string]string"},
		vals: verifC10Combos(verifC10Colls{ID: verifC10ID, Parent: verifC10Par}, []verifC10FV{
			{"SB", verifC10Any([]bool(nil), []bool{true}, []bool{false, true, false}, []bool{false})},
			{"SI", verifC10Any([]int(nil), []int{1, 2, 3}, []int{-verifC10MaxSafe}, []int{0, 0}, []int{})},
			{"SF", verifC10Any([]float64(nil), []float64{0.1, -0.2}, []float64{math.Inf(1), 0, 1}, []float64{0})},
			{"SS", verifC10Any([]string(nil), []string{"a", "", "c"}, []string{""}, []string{"日本", longStr})},
			{"AB", verifC10Any([7]bool{}, [7]bool{false, true, true, true, true, true, false}, [7]bool{true, true, true, true, true, true, true})},
			{"AI", verifC10Any([2]int{}, [2]int{1, -1}, [2]int{verifC10MaxSafe, 0}, [2]int{0, -verifC10MaxSafe})},
			{"AF", verifC10Any([1]float64{}, [1]float64{2.5}, [1]float64{-math.MaxFloat64})},
			{"AS", verifC10Any([2]string{}, [2]string{"x", ""}, [2]string{"", "ü"}, [2]string{longStr, "y"})},
			{"MB", verifC10Any(map[string]bool(nil), map[string]bool{"a": true}, map[string]bool{"a": false, "b": true}, map[string]bool{"b": false})},
			{"MI", verifC10Any(map[string]int(nil), map[string]int{"temp1": 23, "temp2": 40}, map[string]int{"temp2": -1, "0": 0}, map[string]int{})},
			{"MF", verifC10Any(map[string]float64(nil), map[string]float64{"/": 43, "/home": 75}, map[string]float64{"/home": 75.5}, map[string]float64{"/": 0})},
			{"MS", verifC10Any(map[string]string(nil), map[string]string{"hello": "world", "goodbye": "cruel world"},
				map[string]string{"hello": "world!!!", "foo": "bar"}, map[string]string{"ключ": ""})},
		})})

	// ---- flat struct and pointer to flat struct
	flats := verifC10Combos(verifC10Flat{}, []verifC10FV{
		{"Flag", verifC10Any(false, true)},
		{"Count", verifC10Any(0, -1, verifC10MaxSafe)},
		{"Ratio", verifC10Any(0.0, -0.25, math.MaxFloat64)},
		{"Text", verifC10Any("", "nested test type", "тест ✓")},
		{"LongName", verifC10Any(int32(0), int32(math.MinInt32))},
		{"ID", verifC10Any("", "789")},
		{"U8", verifC10Any(uint8(0), uint8(255))},
	})
	pFlats := []*verifC10Flat{nil}
	for i := range flats {
		f := flats[i]
		pFlats = append(pFlats, &f)
	}
	verifC10Run(st, verifC10Spec[verifC10One[verifC10Flat]]{name: "One[Flat]", kinds: []string{"struct(flat)"}, vals: verifC10Wrap(flats)})
	verifC10Run(st, verifC10Spec[verifC10One[*verifC10Flat]]{name: "One[*Flat]", kinds: []string{"*struct(flat)"}, vals: verifC10Wrap(pFlats), sample: true, sampleMin: 2})
	{
		var vals []verifC10Nest
		for i, n := range flats {
			if i%2 == 1 && i > 1 {
				continue
			}
			for j, p := range pFlats {
				if j%3 == 2 {
					continue
				}
				vals = append(vals, verifC10Nest{ID: verifC10ID, Parent: verifC10Par, Desc: []string{"", "d", "описание"}[(i+j)%3], N: n, P: p})
			}
		}
		// make vals[0] the zero config
		vals[0].Desc = ""
		verifC10Run(st, verifC10Spec[verifC10Nest]{name: "Nest(flat + *flat + string)", kinds: []string{"struct(flat)", "*struct(flat)", "string"}, vals: vals})
	}

	// ---- edge fields
	{
		f32 := func(v float32) *float32 { return &v }
		edgeVals := verifC10Combos(verifC10Edge{ID: verifC10ID, Parent: verifC10Par}, []verifC10FV{
			{"Desc", verifC10Any("", "hi there", "описание")},
			{"Role", verifC10Any("", "admin", "user", "rôle ✓")},
			{"Tomb", verifC10Any(false, true)},
			{"Order", verifC10Any(0, 1, -1, verifC10MaxSafe)},
			{"Weight", verifC10Any(0.0, 0.5, -1e-9, math.MaxFloat64)},
			{"PInt", verifC10Any((*int)(nil), verifC10Ptr(0), verifC10Ptr(-verifC10MaxSafe))},
			{"PF32", verifC10Any((*float32)(nil), f32(42), f32(0), f32(-math.MaxFloat32))},
			{"Vals", verifC10Any([]int32(nil), []int32{314, 1024}, []int32{314, 1000, 2048, 4096}, []int32{math.MinInt32}, []int32{0, 0, 0})},
			{"Days", verifC10Any([2]bool{}, [2]bool{true, false}, [2]bool{false, true}, [2]bool{true, true})},
			{"Tags", verifC10Any(map[string]string(nil), map[string]string{"a": "x"}, map[string]string{"a": "y", "b": ""}, map[string]string{"ключ": "значение", "b": "z", "0": "zero"})},
			{"EFlat", verifC10Any(flats[0], flats[3], flats[len(flats)-1])},
			{"PFlat", verifC10Any(pFlats[0], pFlats[1], pFlats[4], pFlats[len(pFlats)-2])},
		})
		verifC10Run(st, verifC10Spec[verifC10Edge]{name: "Edge(edgepoint fields)",
			kinds: []string{"edgepoint:string", "edgepoint:bool", "edgepoint:int", "edgepoint:float64", "edgepoint:*int", "edgepoint:*float32",
				"edgepoint:[]int32", "edgepoint:[N]bool", "edgepoint:map[string]string", "edgepoint:struct(flat)", "edgepoint:*struct(flat)", "string"},
			vals: edgeVals,
			aOnly: []verifC10Edge{
				{ID: "", Parent: "", Role: "admin", Tomb: true},
				{ID: "e2", Parent: "", Role: "user", Vals: []int32{1}},
				{ID: "e3", Parent: "p3", Desc: "d", Order: 7},
			},
			edge: func(a, b verifC10Edge) (Points, error) {
				return DiffPoints(verifC10EdgeTwin(a), verifC10EdgeTwin(b))
			},
			sample: true, sampleMin: 4})
	}

	// ---- child lists
	verifC10Children(st)

	// ---- contract C: fold into a descendant
	foldStart := time.Now()
	verifC10Fold(st)
	foldMs := time.Since(foldStart).Milliseconds()

	// ---- coverage of kinds
	wantKinds := append([]string{}, scalarKinds...)
	for _, e := range []string{"bool", "int", "float64", "string"} {
		wantKinds = append(wantKinds, "*"+e, "[]"+e, "[N]"+e, "map[string]"+e)
	}
	wantKinds = append(wantKinds, "struct(flat)", "*struct(flat)",
		"edgepoint:string", "edgepoint:bool", "edgepoint:int", "edgepoint:float64", "edgepoint:*int", "edgepoint:*float32",
		"edgepoint:[]int32", "edgepoint:[N]bool", "edgepoint:map[string]string", "edgepoint:struct(flat)", "edgepoint:*struct(flat)", "child")
	var uncovered []string
	for _, k := range wantKinds {
		if st.kindsA[k] == 0 || st.kindsB[k] == 0 {
			uncovered = append(uncovered, k)
		}
	}

	tier := "quick"
	if st.thorough {
		tier = "thorough"
	}
	rule := fmt.Sprintf("tier=%s seed=%d. Real Encode/Decode/DiffPoints/MergePoints/MergeEdgePoints on %d struct types (%s). "+
		"Values: bool {f,t}; int/int64 {0,+-1,+-(2^53-1),int32 limits}; int8/16/32 and uint8/16/32 {0,+-1,min,max}; uint/uint64 {0,1,2^53-1,2^32 or 2^32-1}; "+
		"float32 {0,+-1,0.5,-2.75,0.1f,+-max,smallest}; float64 {0,+-1,0.1,15.43,-1234.5678,2^53,+-max,smallest,+-Inf} (no NaN); "+
		"string {\"\",\"a\",\"0\",\" \",non-ASCII,NUL+invalid UTF-8,6800 bytes}; pointers nil and non-nil; "+
		"slices = every sequence of length 0..3 over a 5-element alphabet (2 for bool) plus nil vs empty plus lengths 999, 1000 and a second 1000; "+
		"arrays [3]T = all 5^3 (2^3); maps = every map with 0..3 of the keys {a,b,0,non-ASCII} (keys non-empty: \"\" is documented as invalid and normalised to \"0\") over 2-3 values, nil vs empty, and for map[string]int maps of 999, 1000, 501 and 500 entries; "+
		"flat struct and *flat struct (tagged and untagged fields); multi-field structs by one-hot + diagonal combinations; edgepoint twins; child lists 0..3 x 0..3 with grandchildren (Decode only, plus merge into a child by id). "+
		"Integers restricted to +-(2^53-1) and lengths to <=1000 as documented (Encode rejects more). "+
		"A: every value (%d). B: ordered pairs of the values of each type, |domain| = %d pairs, evaluated %d (%.1f%%; quick = all pairs with the zero config on either side + a seeded 15%% of the rest). "+
		"Edge fields in B: DiffPoints skips edgepoint fields by design, so the edge diff is DiffPoints on a `point:`-tag twin of the struct, applied with MergeEdgePoints. "+
		"Equality: reflect.DeepEqual with nil == empty for slices/maps (as the library's tests, which check len==0). "+
		"Non-trivial: A = the config is not the zero config (ids ignored); B = a != b (non-empty diff); distinct = distinct (contract, type, sha256 of the rendered value(s)) keys in a map, nil/empty renderings identified. "+
		"C (fold into a descendant, FindNodeInStruct under MergePoints/MergeEdgePoints): configuration types %s; ids unique per configuration except one node placed below two parents; "+
		"%d configurations (every child slice holds 0..%d structs, 0..%d in the one-slice type, groups of the grandchild type hold (members, conditions) in {(0,0),(1,0),(0,1),(1,1),(2,1)}; quick = all shapes for one and two slices, for three slices all shapes over 0..1 plus (2,0,0) (0,2,0) (0,0,2) (2,2,2), for the grandchild type 0..2 groups with 5 of the 25 ordered pairs of group shapes next to 0 or 2 leaves; thorough = all shapes, all 25 pairs next to 0..2 leaves, and all 27 triples of groups over 3 shapes), enumerated from the smallest to the largest. "+
		"C1 MergePoints for EVERY node id occurring in the configuration (top, children, grandchildren: %d (configuration, id) targets; %d skipped because the id occurs below two parents) x the node-point batch alphabet of the target's struct type; "+
		"C2 MergeEdgePoints(id, its parent) for every node whose struct type has edgepoint fields (%d targets) x its edge-point alphabet, and the same calls with a wrong parent {\"no-such-parent\", the id itself, another id of the configuration that is not its parent}: error + configuration unchanged; "+
		"C3 ids {\"\", \"no-such-id\", top id + \"x\", the top's parent id (occurs only as a parent)} with the top struct's alphabets, MergeEdgePoints with parent {\"\", top id, top's parent}: error + configuration unchanged. "+
		"Batch alphabet per struct type and tag: empty batch, one point of an undeclared type, per declared bool/int/float64/string field {new value (key \"0\"), second value (key \"\"; zero for bool/string), tombstone}, all fields at once, first field new + last field tombstone (sizes: %s). "+
		"Expected value: the configuration with the addressed struct replaced by the result of the same Merge call on a copy of that struct alone (itself checked against an independent field-by-field reading of the batch), everything else strictly reflect.DeepEqual to before. "+
		"Every C evaluation is repeated %d times on a fresh deep copy (map iteration order in FindNodeInStruct); each repetition counts as an evaluation (%d; %s), distinct counts (sub-contract, type, target id[/parent], batch) once, whatever the configuration around the target, and only if the batch changes the struct it is meant for (%d; %d if the configuration were part of the key).",
		tier, st.seed, len(st.types), strings.Join(st.types, ", "), st.valuesA, st.pairDomain, st.pairsRun,
		100*float64(st.pairsRun)/float64(st.pairDomain),
		strings.Join(st.foldTypes, "; "), st.foldCfgs, map[bool]int{false: 2, true: 3}[st.thorough], map[bool]int{false: 2, true: 3}[st.thorough]+1, st.foldTargets, st.foldShared, st.foldETarget,
		verifC10MapStr(st.foldBatches), verifC10FoldReps, st.foldEvals, verifC10MapStr(st.foldSub), st.foldDist, len(st.foldLoose))

	first := st.first
	if first == nil {
		first = []verifC10Mismatch{}
	}
	samples := st.samples
	if samples == nil {
		samples = []string{}
	}
	res := map[string]any{
		"evaluations":                      st.evaluations,
		"distinct_nontrivial":              len(st.distinct),
		"rule":                             rule,
		"samples":                          samples,
		"exhaustive":                       st.thorough,
		"mismatches":                       st.mismatches,
		"first_mismatches":                 first,
		"field_kinds":                      wantKinds,
		"contracts":                        "A: Decode(Encode(x)) == x; B: Merge(Diff(a,b), decode(a)) == b; C: Merge(Edge)Points(id of a descendant) changes exactly that struct, as on the struct alone; wrong parent / unknown id: error, nothing changed",
		"fold_evaluations":                 st.foldEvals,
		"fold_by_subcontract":              st.foldSub,
		"fold_distinct":                    st.foldDist,
		"fold_distinct_with_configuration": len(st.foldLoose),
		"fold_configurations":              st.foldCfgs,
		"fold_repetitions":                 verifC10FoldReps,
		"fold_batch_alphabet":              st.foldBatches,
		"fold_elapsed_ms":                  foldMs,
		"panics":                           st.panics,
		"mismatch_classes":                 st.classes,
		"uncovered_kinds":                  uncovered,
		"tier":                             tier,
		"seed":                             st.seed,
		"pairs_domain":                     st.pairDomain,
		"pairs_evaluated":                  st.pairsRun,
		"elapsed_ms":                       time.Since(start).Milliseconds(),
	}
	if uncovered == nil {
		res["uncovered_kinds"] = []string{}
	}
	out, _ := json.Marshal(res)
	fmt.Println("C10-RESULT " + string(out))
	if p := os.Getenv("VERIF_C10_OUT"); p != "" {
		if err := os.WriteFile(p, out, 0o644); err != nil {
			t.Errorf("cannot write %s: %v", p, err)
		}
	}
	if len(uncovered) > 0 {
		t.Errorf("harness error: field kinds not covered by both contracts: %v", uncovered)
	}
	if st.mismatches > 0 || st.panics > 0 {
		t.Fatalf("C10: %d mismatches (%d panics); first: %+v", st.mismatches, st.panics, st.first[0])
	}
}
