package data

// Injected with `go test -overlay` (never written into /repo).
//
// BOUNDED leg of C10 (an exhaustive enumeration over a stated finite domain, NOT a proof):
// "typed configuration survives Encode/Decode and Diff/Merge".
//
//   contract A:  Decode(Encode(x)) == x                                  (into a zero value of the type)
//   contract B:  y := Decode(Encode(a)); MergePoints(id, DiffPoints(a,b), &y); y == b
//
// evaluated on the real Encode / Decode / DiffPoints / MergePoints / MergeEdgePoints for a family
// of struct types that covers every supported field kind, over boundary values, and (B) over all
// ordered pairs of those values.
//
// Equality rule: reflect.DeepEqual, except that a nil and an empty slice / map are the same value.
// That is what the library's own tests do (TestDecodeAllTombstonePointArray and TestMergeComplex
// only check len(...) == 0 after deleting every entry; Decode never allocates an empty slice and
// re-slices to length 0 when everything is deleted).
//
// Domain restrictions (all taken from the library's documentation, none discovered by failure):
//   * integers within +/-(2^53-1) (Encode rejects anything larger with an error);
//   * at most 1000 elements per slice / map;
//   * map keys are non-empty (docs/ref/data.md "The Point Key field constraint": "" is an invalid
//     key and is normalised to "0");
//   * no NaN (equality);
//   * DiffPoints only looks at `point:` fields by design (TestDiffPointsComplex: "ignore
//     edgepoints"), there is no edge diff in the library. For edge fields contract B therefore
//     produces the edge points with DiffPoints on a tag twin of the struct (same fields, `point:`
//     tags with the same names) and applies them with MergeEdgePoints;
//   * `child:` lists are exercised on Decode only (Encode ignores them); in addition a diff of one
//     child is merged into the decoded tree by node id (MergePoints -> FindNodeInStruct).
//
// Env: VERIF_TIER = quick (default) | thorough, VERIF_SEED (default 1, only selects the quick
// slice of the pair domain), VERIF_C10_OUT = file that receives the JSON result.

import (
	"crypto/sha256"
	"encoding/json"
	"fmt"
	"hash/fnv"
	"math"
	"os"
	"reflect"
	"sort"
	"strconv"
	"strings"
	"testing"
	"time"
)

const (
	verifC10MaxSafe = 1<<53 - 1
	verifC10ID      = "id-1"
	verifC10Par     = "par-1"
)

// ---------------------------------------------------------------------------------------------
// the family of configuration types

// one field of kind T
type verifC10One[T any] struct {
	ID     string `node:"id"`
	Parent string `node:"parent"`
	V      T      `point:"v"`
}

// every scalar kind side by side
type verifC10Scalars struct {
	ID     string  `node:"id"`
	Parent string  `node:"parent"`
	B      bool    `point:"b"`
	I      int     `point:"i"`
	I8     int8    `point:"i8"`
	I16    int16   `point:"i16"`
	I32    int32   `point:"i32"`
	I64    int64   `point:"i64"`
	U      uint    `point:"u"`
	U8     uint8   `point:"u8"`
	U16    uint16  `point:"u16"`
	U32    uint32  `point:"u32"`
	U64    uint64  `point:"u64"`
	F32    float32 `point:"f32"`
	F64    float64 `point:"f64"`
	S      string  `point:"s"`
}

type verifC10Ptrs struct {
	ID     string   `node:"id"`
	Parent string   `node:"parent"`
	PB     *bool    `point:"pb"`
	PI     *int     `point:"pi"`
	PF     *float64 `point:"pf"`
	PS     *string  `point:"ps"`
}

type verifC10Colls struct {
	ID     string             `node:"id"`
	Parent string             `node:"parent"`
	SB     []bool             `point:"sb"`
	SI     []int              `point:"si"`
	SF     []float64          `point:"sf"`
	SS     []string           `point:"ss"`
	AB     [7]bool            `point:"ab"`
	AI     [2]int             `point:"ai"`
	AF     [1]float64         `point:"af"`
	AS     [2]string          `point:"as"`
	MB     map[string]bool    `point:"mb"`
	MI     map[string]int     `point:"mi"`
	MF     map[string]float64 `point:"mf"`
	MS     map[string]string  `point:"ms"`
}

// a "flat" struct: keys come from the `point` tag or from the camel-cased field name
type verifC10Flat struct {
	Flag     bool    `point:"flag"`
	Count    int     `point:"count"`
	Ratio    float64 // key "ratio"
	Text     string  `point:"text"`
	LongName int32   // key "longName"
	ID       string  `node:"id"` // key "id" (like TestType nested in testTypeComplex)
	U8       uint8   `point:"u8"`
}

type verifC10Nest struct {
	ID     string        `node:"id"`
	Parent string        `node:"parent"`
	Desc   string        `point:"description"`
	N      verifC10Flat  `point:"nested"`
	P      *verifC10Flat `point:"pflat"`
}

// edge fields and their `point:` tag twin (struct conversion ignores tags)
type verifC10Edge struct {
	ID     string            `node:"id"`
	Parent string            `node:"parent"`
	Desc   string            `point:"description"`
	Role   string            `edgepoint:"role"`
	Tomb   bool              `edgepoint:"tombstone"`
	Order  int               `edgepoint:"order"`
	Weight float64           `edgepoint:"weight"`
	PInt   *int              `edgepoint:"nullEdge"`
	PF32   *float32          `edgepoint:"value"`
	Vals   []int32           `edgepoint:"testValue"`
	Days   [2]bool           `edgepoint:"day"`
	Tags   map[string]string `edgepoint:"tag"`
	EFlat  verifC10Flat      `edgepoint:"eflat"`
	PFlat  *verifC10Flat     `edgepoint:"epflat"`
}

type verifC10EdgeTwin struct {
	ID     string
	Parent string
	Desc   string
	Role   string            `point:"role"`
	Tomb   bool              `point:"tombstone"`
	Order  int               `point:"order"`
	Weight float64           `point:"weight"`
	PInt   *int              `point:"nullEdge"`
	PF32   *float32          `point:"value"`
	Vals   []int32           `point:"testValue"`
	Days   [2]bool           `point:"day"`
	Tags   map[string]string `point:"tag"`
	EFlat  verifC10Flat      `point:"eflat"`
	PFlat  *verifC10Flat     `point:"epflat"`
}

// child lists (Decode only)
type verifC10Grand struct {
	ID     string `node:"id"`
	Parent string `node:"parent"`
	Desc   string `point:"description"`
	On     *bool  `point:"on"`
}

type verifC10Kid struct {
	ID     string          `node:"id"`
	Parent string          `node:"parent"`
	Desc   string          `point:"description"`
	Count  int             `point:"count"`
	Vals   []int           `point:"val"`
	Role   string          `edgepoint:"role"`
	Grand  []verifC10Grand `child:"verifC10Grand"`
}

type verifC10Other struct {
	ID     string  `node:"id"`
	Parent string  `node:"parent"`
	Level  float64 `point:"level"`
}

type verifC10Parent struct {
	ID     string          `node:"id"`
	Parent string          `node:"parent"`
	Desc   string          `point:"description"`
	Kids   []verifC10Kid   `child:"verifC10Kid"`
	Others []verifC10Other `child:"verifC10Other"`
}

// ---------------------------------------------------------------------------------------------
// bookkeeping

type verifC10Mismatch struct {
	Contract string `json:"contract"`
	Type     string `json:"type"`
	A        string `json:"a"`
	B        string `json:"b,omitempty"`
	Points   string `json:"points,omitempty"`
	Expected string `json:"expected"`
	Got      string `json:"got"`
	Error    string `json:"error,omitempty"`
}

type verifC10Key struct {
	contract byte
	typ      string
	a, b     [32]byte
}

type verifC10State struct {
	thorough    bool
	seed        uint64
	evaluations int
	distinct    map[verifC10Key]struct{}
	samples     []string
	mismatches  int
	panics      int
	first       []verifC10Mismatch
	classes     map[string]int
	kindsA      map[string]int
	kindsB      map[string]int
	pairDomain  int // |ordered pair domain| of contract B
	pairsRun    int
	valuesA     int
	types       []string
}

func (st *verifC10State) fail(m verifC10Mismatch) {
	st.mismatches++
	cls := []byte(m.Contract + " " + m.Type + ": ")
	if m.Error == "" {
		cls = append(cls, "wrong value"...)
	}
	for i := 0; i < len(m.Error); i++ { // digits -> N so that errors group
		c := m.Error[i]
		if c >= '0' && c <= '9' {
			if cls[len(cls)-1] != 'N' {
				cls = append(cls, 'N')
			}
			continue
		}
		cls = append(cls, c)
	}
	st.classes[string(cls)]++
	if len(st.first) < 10 {
		st.first = append(st.first, m)
	}
}

func (st *verifC10State) pick(tname string, i, j int) bool {
	if st.thorough || i == 0 || j == 0 {
		return true
	}
	h := fnv.New64a()
	fmt.Fprintf(h, "%d|%s|%d|%d", st.seed, tname, i, j)
	return h.Sum64()%100 < 15
}

// verifC10Repr writes a deterministic rendering of v. nil and empty slices / maps are rendered the
// same (see the equality rule). In short mode long strings and long collections are elided.
func verifC10Repr(sb *strings.Builder, v reflect.Value, short bool) {
	switch v.Kind() {
	case reflect.Pointer:
		if v.IsNil() {
			sb.WriteString("nil")
			return
		}
		sb.WriteByte('&')
		verifC10Repr(sb, v.Elem(), short)
	case reflect.Slice, reflect.Array:
		n := v.Len()
		sb.WriteByte('[')
		for i := 0; i < n; i++ {
			if short && n > 8 && i == 3 {
				fmt.Fprintf(sb, " ...(len %d)...", n)
				i = n - 3
				continue
			}
			if i > 0 {
				sb.WriteByte(' ')
			}
			verifC10Repr(sb, v.Index(i), short)
		}
		sb.WriteByte(']')
	case reflect.Map:
		keys := make([]string, 0, v.Len())
		for _, k := range v.MapKeys() {
			keys = append(keys, k.String())
		}
		sort.Strings(keys)
		sb.WriteString("map[")
		for i, k := range keys {
			if short && len(keys) > 8 && i == 3 {
				fmt.Fprintf(sb, " ...(len %d)...", len(keys))
				break
			}
			if i > 0 {
				sb.WriteByte(' ')
			}
			sb.WriteString(strconv.Quote(k))
			sb.WriteByte(':')
			verifC10Repr(sb, v.MapIndex(reflect.ValueOf(k)), short)
		}
		sb.WriteByte(']')
	case reflect.Struct:
		sb.WriteByte('{')
		t := v.Type()
		for i := 0; i < v.NumField(); i++ {
			if i > 0 {
				sb.WriteByte(' ')
			}
			sb.WriteString(t.Field(i).Name)
			sb.WriteByte(':')
			verifC10Repr(sb, v.Field(i), short)
		}
		sb.WriteByte('}')
	case reflect.String:
		s := v.String()
		if short && len(s) > 48 {
			fmt.Fprintf(sb, "%s...(len %d)", strconv.Quote(s[:24]), len(s))
		} else {
			sb.WriteString(strconv.Quote(s))
		}
	case reflect.Float32:
		sb.WriteString(strconv.FormatFloat(v.Float(), 'g', -1, 32))
	case reflect.Float64:
		sb.WriteString(strconv.FormatFloat(v.Float(), 'g', -1, 64))
	case reflect.Bool:
		sb.WriteString(strconv.FormatBool(v.Bool()))
	case reflect.Int, reflect.Int8, reflect.Int16, reflect.Int32, reflect.Int64:
		sb.WriteString(strconv.FormatInt(v.Int(), 10))
	case reflect.Uint, reflect.Uint8, reflect.Uint16, reflect.Uint32, reflect.Uint64:
		sb.WriteString(strconv.FormatUint(v.Uint(), 10))
	default:
		fmt.Fprintf(sb, "<%v>", v.Kind())
	}
}

func verifC10Full(x any) string {
	var sb strings.Builder
	verifC10Repr(&sb, reflect.ValueOf(x), false)
	return sb.String()
}

func verifC10Short(x any) string {
	var sb strings.Builder
	verifC10Repr(&sb, reflect.ValueOf(x), true)
	s := sb.String()
	if len(s) > 420 {
		s = s[:400] + fmt.Sprintf("...(%d chars)", len(s))
	}
	return s
}

func verifC10PointsStr(pts []Point) string {
	var sb strings.Builder
	sb.WriteByte('[')
	for i, p := range pts {
		if i >= 8 {
			fmt.Fprintf(&sb, " ...(%d points)", len(pts))
			break
		}
		if i > 0 {
			sb.WriteByte(' ')
		}
		fmt.Fprintf(&sb, "%s/%s", p.Type, p.Key)
		switch {
		case p.Tombstone != 0:
			fmt.Fprintf(&sb, "=TOMBSTONE(%d)", p.Tombstone)
		case p.Text != "":
			t := p.Text
			if len(t) > 24 {
				t = t[:24] + "..."
			}
			fmt.Fprintf(&sb, "=%q", t)
		default:
			fmt.Fprintf(&sb, "=%v", p.Value)
		}
	}
	sb.WriteByte(']')
	return sb.String()
}

// verifC10Eq is reflect.DeepEqual with nil == empty for slices and maps.
func verifC10Eq(a, b reflect.Value) bool {
	switch a.Kind() {
	case reflect.Pointer:
		if a.IsNil() || b.IsNil() {
			return a.IsNil() == b.IsNil()
		}
		return verifC10Eq(a.Elem(), b.Elem())
	case reflect.Slice, reflect.Array:
		if a.Len() != b.Len() {
			return false
		}
		for i := 0; i < a.Len(); i++ {
			if !verifC10Eq(a.Index(i), b.Index(i)) {
				return false
			}
		}
		return true
	case reflect.Map:
		if a.Len() != b.Len() {
			return false
		}
		iter := a.MapRange()
		for iter.Next() {
			bv := b.MapIndex(iter.Key())
			if !bv.IsValid() || !verifC10Eq(iter.Value(), bv) {
				return false
			}
		}
		return true
	case reflect.Struct:
		for i := 0; i < a.NumField(); i++ {
			if !verifC10Eq(a.Field(i), b.Field(i)) {
				return false
			}
		}
		return true
	default:
		return reflect.DeepEqual(a.Interface(), b.Interface())
	}
}

func verifC10Equal[T any](a, b T) bool {
	if reflect.DeepEqual(a, b) {
		return true
	}
	return verifC10Eq(reflect.ValueOf(a), reflect.ValueOf(b))
}

func verifC10IDs(x any) (string, string) {
	v := reflect.ValueOf(x)
	id := v.FieldByName("ID").String()
	par := ""
	if f := v.FieldByName("Parent"); f.IsValid() {
		par = f.String()
	}
	return id, par
}

// ---------------------------------------------------------------------------------------------
// the contracts

func verifC10RoundTrip[T any](x T) (T, error) {
	var y T
	ne, err := Encode(x)
	if err != nil {
		return y, fmt.Errorf("Encode: %w", err)
	}
	if err := Decode(NodeEdgeChildren{NodeEdge: ne}, &y); err != nil {
		return y, fmt.Errorf("Decode: %w", err)
	}
	return y, nil
}

type verifC10Spec[T any] struct {
	name   string
	kinds  []string
	vals   []T // contract A and all ordered pairs for contract B; vals[0] is the zero config
	aOnly  []T // contract A only (e.g. other ids)
	edge   func(a, b T) (Points, error)
	sample bool
	// minimum number of diff points for the sample (to show an interesting case)
	sampleMin int
}

func verifC10Run[T any](st *verifC10State, sp verifC10Spec[T]) {
	var zero T
	tname := sp.name
	st.types = append(st.types, tname)
	all := append(append([]T{}, sp.vals...), sp.aOnly...)
	full := make([]string, len(all))
	hash := make([][32]byte, len(all))
	isZero := make([]bool, len(all))
	for i, x := range all {
		full[i] = verifC10Full(x)
		hash[i] = sha256.Sum256([]byte(full[i]))
		// "zero" ignores the node id / parent: a config whose every point / edge field is zero
		zx := reflect.New(reflect.TypeOf(x)).Elem()
		zx.Set(reflect.ValueOf(x))
		if f := zx.FieldByName("ID"); f.IsValid() {
			f.SetString("")
		}
		if f := zx.FieldByName("Parent"); f.IsValid() {
			f.SetString("")
		}
		isZero[i] = verifC10Equal(zx.Interface().(T), zero)
	}

	// contract A
	for i, x := range all {
		st.evaluations++
		st.valuesA++
		for _, k := range sp.kinds {
			st.kindsA[k]++
		}
		if !isZero[i] {
			st.distinct[verifC10Key{contract: 'A', typ: tname, a: hash[i]}] = struct{}{}
		}
		var got T
		var err error
		var pan any
		func() {
			defer func() {
				if r := recover(); r != nil {
					pan = r
				}
			}()
			got, err = verifC10RoundTrip(x)
		}()
		if pan != nil {
			st.panics++
			err = fmt.Errorf("panic: %v", pan)
		}
		if err != nil || !verifC10Equal(got, x) {
			m := verifC10Mismatch{Contract: "A", Type: tname, A: verifC10Short(x), Expected: verifC10Short(x), Got: verifC10Short(got)}
			if err != nil {
				m.Error = err.Error()
			}
			st.fail(m)
		}
	}

	// contract B
	sampled := !sp.sample
	n := len(sp.vals)
	st.pairDomain += n * n
	for i, a := range sp.vals {
		id, par := verifC10IDs(a)
		for j, b := range sp.vals {
			if !st.pick(tname, i, j) {
				continue
			}
			st.evaluations++
			st.pairsRun++
			for _, k := range sp.kinds {
				st.kindsB[k]++
			}
			nontrivial := hash[i] != hash[j]
			if nontrivial {
				st.distinct[verifC10Key{contract: 'B', typ: tname, a: hash[i], b: hash[j]}] = struct{}{}
			}
			var y T
			var pts, epts Points
			var err error
			var pan any
			func() {
				defer func() {
					if r := recover(); r != nil {
						pan = r
					}
				}()
				y, err = verifC10RoundTrip(a)
				if err != nil {
					return
				}
				pts, err = DiffPoints(a, b)
				if err != nil {
					err = fmt.Errorf("DiffPoints: %w", err)
					return
				}
				if err = MergePoints(id, pts, &y); err != nil {
					err = fmt.Errorf("MergePoints: %w", err)
					return
				}
				if sp.edge != nil {
					epts, err = sp.edge(a, b)
					if err != nil {
						err = fmt.Errorf("DiffPoints(twin): %w", err)
						return
					}
					if err = MergeEdgePoints(id, par, epts, &y); err != nil {
						err = fmt.Errorf("MergeEdgePoints: %w", err)
						return
					}
				}
			}()
			if pan != nil {
				st.panics++
				err = fmt.Errorf("panic: %v", pan)
			}
			ptsStr := ""
			if err != nil || !verifC10Equal(y, b) || (!sampled && nontrivial) {
				ptsStr = verifC10PointsStr(pts)
				if sp.edge != nil {
					ptsStr += " edge" + verifC10PointsStr(epts)
				}
			}
			if err != nil || !verifC10Equal(y, b) {
				m := verifC10Mismatch{Contract: "B", Type: tname, A: verifC10Short(a), B: verifC10Short(b),
					Points: ptsStr, Expected: verifC10Short(b), Got: verifC10Short(y)}
				if err != nil {
					m.Error = err.Error()
				}
				st.fail(m)
			} else if !sampled && nontrivial && i > j && j > 1 && len(pts)+len(epts) >= sp.sampleMin && len(st.samples) < 5 {
				sampled = true
				st.samples = append(st.samples, fmt.Sprintf("B %s: a=%s b=%s diff=%s -> merged==b",
					tname, verifC10Short(a), verifC10Short(b), ptsStr))
			}
		}
	}

	// none of the library calls may have modified its inputs
	for i, x := range all {
		if verifC10Full(x) != full[i] {
			st.fail(verifC10Mismatch{Contract: "inputs-unchanged", Type: tname, A: full[i][:verifC10Min(len(full[i]), 300)],
				Expected: "input value unchanged by Encode/Decode/DiffPoints/Merge*", Got: verifC10Short(x)})
		}
	}
}

func verifC10Min(a, b int) int {
	if a < b {
		return a
	}
	return b
}

// ---------------------------------------------------------------------------------------------
// value enumeration helpers

func verifC10Wrap[T any](vals []T) []verifC10One[T] {
	out := make([]verifC10One[T], len(vals))
	for i, v := range vals {
		out[i] = verifC10One[T]{ID: verifC10ID, Parent: verifC10Par, V: v}
	}
	return out
}

// a few extra ids for contract A
func verifC10OtherIDs[T any](vals []T) []verifC10One[T] {
	var out []verifC10One[T]
	for i, v := range vals {
		switch i % 3 {
		case 0:
			out = append(out, verifC10One[T]{ID: "", Parent: "", V: v})
		case 1:
			out = append(out, verifC10One[T]{ID: "другой-id", Parent: "", V: v})
		default:
			out = append(out, verifC10One[T]{ID: "x", Parent: "p/ä", V: v})
		}
		if i >= 5 {
			break
		}
	}
	return out
}

func verifC10Ptr[T any](v T) *T { return &v }

func verifC10PtrVals[T any](vals []T) []*T {
	out := []*T{nil}
	for _, v := range vals {
		out = append(out, verifC10Ptr(v))
	}
	return out
}

// all sequences of length 0..maxLen over alpha: nil first, then an empty non-nil slice, then the rest
func verifC10Seqs[T any](alpha []T, maxLen int) [][]T {
	out := [][]T{nil, {}}
	var gen func(prefix []T, n int)
	gen = func(prefix []T, n int) {
		if len(prefix) == n {
			out = append(out, append([]T{}, prefix...))
			return
		}
		for _, a := range alpha {
			gen(append(prefix, a), n)
		}
	}
	for n := 1; n <= maxLen; n++ {
		gen(nil, n)
	}
	return out
}

func verifC10Big[T any](n int, alpha []T, shift int) []T {
	out := make([]T, n)
	for i := range out {
		out[i] = alpha[(i*7+i/5+shift)%len(alpha)]
	}
	return out
}

func verifC10Arr3[T any](alpha []T) [][3]T {
	var out [][3]T
	for _, a := range alpha {
		for _, b := range alpha {
			for _, c := range alpha {
				out = append(out, [3]T{a, b, c})
			}
		}
	}
	return out
}

// all maps with at most maxLen of the given (non-empty) keys and values from alpha
func verifC10Maps[T any](keys []string, alpha []T, maxLen int) []map[string]T {
	out := []map[string]T{nil, {}}
	var gen func(from int, cur map[string]T)
	gen = func(from int, cur map[string]T) {
		if len(cur) > 0 {
			cp := make(map[string]T, len(cur))
			for k, v := range cur {
				cp[k] = v
			}
			out = append(out, cp)
		}
		if len(cur) == maxLen {
			return
		}
		for ki := from; ki < len(keys); ki++ {
			for _, v := range alpha {
				cur[keys[ki]] = v
				gen(ki+1, cur)
			}
			delete(cur, keys[ki])
		}
	}
	gen(0, map[string]T{})
	return out
}

type verifC10FV struct {
	name string
	vals []any
}

func verifC10Any[T any](xs ...T) []any {
	out := make([]any, len(xs))
	for i, x := range xs {
		out[i] = x
	}
	return out
}

// verifC10Combos: base, then every field set to each of its values with the others at base
// ("one-hot"), then diagonals (field f takes its (d+shift*f)-th value).
func verifC10Combos[T any](base T, fvs []verifC10FV) []T {
	out := []T{base}
	set := func(dst *T, name string, val any) {
		reflect.ValueOf(dst).Elem().FieldByName(name).Set(reflect.ValueOf(val))
	}
	maxLen := 0
	for _, fv := range fvs {
		if len(fv.vals) > maxLen {
			maxLen = len(fv.vals)
		}
		for _, val := range fv.vals {
			x := base
			set(&x, fv.name, val)
			out = append(out, x)
		}
	}
	for shift := 0; shift < 2; shift++ {
		for d := 0; d < maxLen; d++ {
			x := base
			for fi, fv := range fvs {
				set(&x, fv.name, fv.vals[(d+shift*fi)%len(fv.vals)])
			}
			out = append(out, x)
		}
	}
	return out
}

func verifC10Tree(p verifC10Parent) (NodeEdgeChildren, error) {
	ne, err := Encode(p)
	if err != nil {
		return NodeEdgeChildren{}, err
	}
	root := NodeEdgeChildren{NodeEdge: ne}
	// kids and others interleaved: Decode has to regroup them by type, keeping the order
	for i := 0; i < len(p.Kids) || i < len(p.Others); i++ {
		if i < len(p.Kids) {
			k := p.Kids[i]
			kne, err := Encode(k)
			if err != nil {
				return root, err
			}
			kn := NodeEdgeChildren{NodeEdge: kne}
			for _, g := range k.Grand {
				gne, err := Encode(g)
				if err != nil {
					return root, err
				}
				kn.Children = append(kn.Children, NodeEdgeChildren{NodeEdge: gne})
			}
			root.Children = append(root.Children, kn)
		}
		if i < len(p.Others) {
			one, err := Encode(p.Others[i])
			if err != nil {
				return root, err
			}
			root.Children = append(root.Children, NodeEdgeChildren{NodeEdge: one})
		}
	}
	return root, nil
}

func verifC10Children(st *verifC10State) {
	tname := "verifC10Parent(child lists)"
	st.types = append(st.types, tname)
	tr, fa := true, false
	grands := []verifC10Grand{
		{ID: "g1", Parent: "k1", Desc: "grand one", On: &tr},
		{ID: "g2", Parent: "k1", Desc: "", On: nil},
		{ID: "g3", Parent: "k2", Desc: "внук", On: &fa},
	}
	kidVals := []verifC10Kid{
		{ID: "k1", Parent: "p1"},
		{ID: "k1", Parent: "p1", Desc: "kid one", Count: 3, Vals: []int{1, 2, 3}, Role: "user"},
		{ID: "k1", Parent: "p1", Desc: "ребёнок", Count: -verifC10MaxSafe, Vals: []int{0}, Role: "admin"},
		{ID: "k1", Parent: "p1", Desc: "", Count: 1, Vals: []int{5, 0, 0}, Role: ""},
		{ID: "k1", Parent: "p1", Desc: "x", Count: 0, Vals: nil, Role: "user"},
	}
	mk := func(id string, k verifC10Kid, g []verifC10Grand) verifC10Kid {
		k.ID = id
		k.Grand = g
		return k
	}
	others := []verifC10Other{{ID: "o1", Parent: "p1", Level: 0.5}, {ID: "o2", Parent: "p1", Level: -1e300}, {ID: "o3", Parent: "p1"}}
	var parents []verifC10Parent
	for nk := 0; nk <= 3; nk++ {
		for no := 0; no <= 3; no++ {
			for variant := 0; variant < len(kidVals); variant++ {
				p := verifC10Parent{ID: "p1", Parent: "root", Desc: fmt.Sprintf("parent %d/%d/%d ü", nk, no, variant)}
				for i := 0; i < nk; i++ {
					var g []verifC10Grand
					switch (i + variant) % 3 {
					case 1:
						g = grands[:1]
					case 2:
						g = grands
					}
					p.Kids = append(p.Kids, mk(fmt.Sprintf("k%d", i+1), kidVals[(i+variant)%len(kidVals)], g))
				}
				p.Others = append(p.Others, others[:no]...)
				parents = append(parents, p)
			}
		}
	}
	for _, p := range parents {
		// contract A on the tree
		st.evaluations++
		st.valuesA++
		st.kindsA["child"]++
		full := verifC10Full(p)
		st.distinct[verifC10Key{contract: 'A', typ: tname, a: sha256.Sum256([]byte(full))}] = struct{}{}
		var got verifC10Parent
		var err error
		var pan any
		func() {
			defer func() {
				if r := recover(); r != nil {
					pan = r
				}
			}()
			var tree NodeEdgeChildren
			tree, err = verifC10Tree(p)
			if err != nil {
				return
			}
			err = Decode(tree, &got)
		}()
		if pan != nil {
			st.panics++
			err = fmt.Errorf("panic: %v", pan)
		}
		if err != nil || !verifC10Equal(got, p) {
			m := verifC10Mismatch{Contract: "A(child)", Type: tname, A: verifC10Short(p), Expected: verifC10Short(p), Got: verifC10Short(got)}
			if err != nil {
				m.Error = err.Error()
			}
			st.fail(m)
		}
		if len(st.samples) < 5 && len(p.Kids) == 2 && len(p.Others) == 1 && len(p.Kids[1].Grand) == 3 && !strings.Contains(strings.Join(st.samples, ""), "A(child)") {
			st.samples = append(st.samples, fmt.Sprintf("A(child) %s: x=%s -> Decode(tree of Encode(x), Encode(kids), Encode(grandkids))==x", tname, verifC10Short(p)))
		}
		// contract B on one child of the decoded tree, addressed by node id
		for ki := range p.Kids {
			for vi, kv := range kidVals {
				st.pairDomain++
				if !st.pick(tname, ki+1, vi+1) {
					continue
				}
				st.evaluations++
				st.pairsRun++
				st.kindsB["child"]++
				target := mk(p.Kids[ki].ID, kv, p.Kids[ki].Grand)
				target.Role = p.Kids[ki].Role // edge field: not part of DiffPoints
				want := p
				want.Kids = append([]verifC10Kid{}, p.Kids...)
				want.Kids[ki] = target
				if !verifC10Equal(p.Kids[ki], target) {
					st.distinct[verifC10Key{contract: 'B', typ: tname, a: sha256.Sum256([]byte(full + "#" + strconv.Itoa(ki))),
						b: sha256.Sum256([]byte(verifC10Full(target)))}] = struct{}{}
				}
				var y verifC10Parent
				var pts Points
				err, pan = nil, nil
				func() {
					defer func() {
						if r := recover(); r != nil {
							pan = r
						}
					}()
					var tree NodeEdgeChildren
					tree, err = verifC10Tree(p)
					if err != nil {
						return
					}
					if err = Decode(tree, &y); err != nil {
						return
					}
					pts, err = DiffPoints(p.Kids[ki], target)
					if err != nil {
						return
					}
					err = MergePoints(target.ID, pts, &y)
				}()
				if pan != nil {
					st.panics++
					err = fmt.Errorf("panic: %v", pan)
				}
				if err != nil || !verifC10Equal(y, want) {
					m := verifC10Mismatch{Contract: "B(child)", Type: tname, A: verifC10Short(p), B: fmt.Sprintf("Kids[%d] := %s", ki, verifC10Short(target)),
						Points: verifC10PointsStr(pts), Expected: verifC10Short(want), Got: verifC10Short(y)}
					if err != nil {
						m.Error = err.Error()
					}
					st.fail(m)
				}
			}
		}
	}
}

// ---------------------------------------------------------------------------------------------

func TestVerifC10Roundtrip(t *testing.T) {
	start := time.Now()
	st := &verifC10State{
		thorough: os.Getenv("VERIF_TIER") == "thorough",
		seed:     1,
		distinct: map[verifC10Key]struct{}{},
		classes:  map[string]int{},
		kindsA:   map[string]int{},
		kindsB:   map[string]int{},
	}
	if s := os.Getenv("VERIF_SEED"); s != "" {
		if v, err := strconv.ParseUint(s, 10, 64); err == nil {
			st.seed = v
		}
	}

	longStr := strings.Repeat("long-строка-", 400) // 6800 bytes, non-ASCII inside
	bools := []bool{false, true}
	ints := []int{0, 1, -1, verifC10MaxSafe, -verifC10MaxSafe, math.MaxInt32, math.MinInt32, 1000}
	int8s := []int8{0, 1, -1, math.MaxInt8, math.MinInt8}
	int16s := []int16{0, 1, -1, math.MaxInt16, math.MinInt16}
	int32s := []int32{0, 1, -1, math.MaxInt32, math.MinInt32}
	int64s := []int64{0, 1, -1, verifC10MaxSafe, -verifC10MaxSafe, 1 << 31, -(1 << 31) - 1}
	uints := []uint{0, 1, verifC10MaxSafe, math.MaxUint32}
	uint8s := []uint8{0, 1, math.MaxUint8}
	uint16s := []uint16{0, 1, math.MaxUint16}
	uint32s := []uint32{0, 1, math.MaxUint32}
	uint64s := []uint64{0, 1, verifC10MaxSafe, 1 << 32}
	float32s := []float32{0, 1, -1, 0.5, -2.75, 0.1, math.MaxFloat32, -math.MaxFloat32, math.SmallestNonzeroFloat32}
	float64s := []float64{0, 1, -1, 0.1, 15.43, -1234.5678, 1 << 53, math.MaxFloat64, -math.MaxFloat64,
		math.SmallestNonzeroFloat64, math.Inf(1), math.Inf(-1)}
	strs := []string{"", "a", "0", " ", "héllo wörld ✓ 日本語", "tab\tnl\nnul\x00 invalid\xff", longStr}

	// element alphabets for collections
	eInts := []int{0, 1, -1, verifC10MaxSafe, -verifC10MaxSafe}
	eFloats := []float64{0, 1.5, -0.1, math.MaxFloat64, -1234.5678}
	eStrs := []string{"", "a", "日本 ✓", "b c", "0"}
	mapKeys := []string{"a", "b", "0", "ключ/key"}

	// ---- scalars
	verifC10Run(st, verifC10Spec[verifC10One[bool]]{name: "One[bool]", kinds: []string{"bool"}, vals: verifC10Wrap(bools), aOnly: verifC10OtherIDs(bools)})
	verifC10Run(st, verifC10Spec[verifC10One[int]]{name: "One[int]", kinds: []string{"int"}, vals: verifC10Wrap(ints), aOnly: verifC10OtherIDs(ints)})
	verifC10Run(st, verifC10Spec[verifC10One[int8]]{name: "One[int8]", kinds: []string{"int8"}, vals: verifC10Wrap(int8s)})
	verifC10Run(st, verifC10Spec[verifC10One[int16]]{name: "One[int16]", kinds: []string{"int16"}, vals: verifC10Wrap(int16s)})
	verifC10Run(st, verifC10Spec[verifC10One[int32]]{name: "One[int32]", kinds: []string{"int32"}, vals: verifC10Wrap(int32s)})
	verifC10Run(st, verifC10Spec[verifC10One[int64]]{name: "One[int64]", kinds: []string{"int64"}, vals: verifC10Wrap(int64s)})
	verifC10Run(st, verifC10Spec[verifC10One[uint]]{name: "One[uint]", kinds: []string{"uint"}, vals: verifC10Wrap(uints)})
	verifC10Run(st, verifC10Spec[verifC10One[uint8]]{name: "One[uint8]", kinds: []string{"uint8"}, vals: verifC10Wrap(uint8s)})
	verifC10Run(st, verifC10Spec[verifC10One[uint16]]{name: "One[uint16]", kinds: []string{"uint16"}, vals: verifC10Wrap(uint16s)})
	verifC10Run(st, verifC10Spec[verifC10One[uint32]]{name: "One[uint32]", kinds: []string{"uint32"}, vals: verifC10Wrap(uint32s)})
	verifC10Run(st, verifC10Spec[verifC10One[uint64]]{name: "One[uint64]", kinds: []string{"uint64"}, vals: verifC10Wrap(uint64s)})
	verifC10Run(st, verifC10Spec[verifC10One[float32]]{name: "One[float32]", kinds: []string{"float32"}, vals: verifC10Wrap(float32s)})
	verifC10Run(st, verifC10Spec[verifC10One[float64]]{name: "One[float64]", kinds: []string{"float64"}, vals: verifC10Wrap(float64s), aOnly: verifC10OtherIDs(float64s)})
	verifC10Run(st, verifC10Spec[verifC10One[string]]{name: "One[string]", kinds: []string{"string"}, vals: verifC10Wrap(strs), aOnly: verifC10OtherIDs(strs)})

	scalarKinds := []string{"bool", "int", "int8", "int16", "int32", "int64", "uint", "uint8", "uint16", "uint32", "uint64", "float32", "float64", "string"}
	verifC10Run(st, verifC10Spec[verifC10Scalars]{name: "Scalars(14 fields)", kinds: scalarKinds,
		vals: verifC10Combos(verifC10Scalars{ID: verifC10ID, Parent: verifC10Par}, []verifC10FV{
			{"B", verifC10Any(bools...)}, {"I", verifC10Any(ints...)}, {"I8", verifC10Any(int8s...)}, {"I16", verifC10Any(int16s...)},
			{"I32", verifC10Any(int32s...)}, {"I64", verifC10Any(int64s...)}, {"U", verifC10Any(uints...)}, {"U8", verifC10Any(uint8s...)},
			{"U16", verifC10Any(uint16s...)}, {"U32", verifC10Any(uint32s...)}, {"U64", verifC10Any(uint64s...)},
			{"F32", verifC10Any(float32s...)}, {"F64", verifC10Any(float64s...)}, {"S", verifC10Any(strs...)},
		})})

	// ---- pointers
	pBools := verifC10PtrVals(bools)
	pInts := verifC10PtrVals([]int{0, 1, -1, verifC10MaxSafe, -verifC10MaxSafe})
	pFloats := verifC10PtrVals([]float64{0, -2.5, 0.1, math.MaxFloat64})
	pStrs := verifC10PtrVals([]string{"", "a", "héllo ✓ 日本語", longStr})
	verifC10Run(st, verifC10Spec[verifC10One[*bool]]{name: "One[*bool]", kinds: []string{"*bool"}, vals: verifC10Wrap(pBools)})
	verifC10Run(st, verifC10Spec[verifC10One[*int]]{name: "One[*int]", kinds: []string{"*int"}, vals: verifC10Wrap(pInts)})
	verifC10Run(st, verifC10Spec[verifC10One[*float64]]{name: "One[*float64]", kinds: []string{"*float64"}, vals: verifC10Wrap(pFloats)})
	verifC10Run(st, verifC10Spec[verifC10One[*string]]{name: "One[*string]", kinds: []string{"*string"}, vals: verifC10Wrap(pStrs), sample: true})
	{
		var vals []verifC10Ptrs
		for _, pb := range pBools {
			for _, pi := range pInts[:4] {
				for _, pf := range pFloats[:3] {
					for _, ps := range pStrs[:4] {
						vals = append(vals, verifC10Ptrs{ID: verifC10ID, Parent: verifC10Par, PB: pb, PI: pi, PF: pf, PS: ps})
					}
				}
			}
		}
		verifC10Run(st, verifC10Spec[verifC10Ptrs]{name: "Ptrs(4 fields)", kinds: []string{"*bool", "*int", "*float64", "*string"}, vals: vals})
	}

	// ---- slices: every sequence of length 0..3 over the element alphabet, nil and empty, 999, 1000, 1000'
	sBools := append(verifC10Seqs(bools, 3), verifC10Big(999, bools, 0), verifC10Big(1000, bools, 0), verifC10Big(1000, bools, 1))
	sInts := append(verifC10Seqs(eInts, 3), verifC10Big(999, ints, 0), verifC10Big(1000, ints, 0), verifC10Big(1000, ints, 3))
	sFloats := append(verifC10Seqs(eFloats, 3), verifC10Big(999, float64s, 0), verifC10Big(1000, float64s, 0), verifC10Big(1000, float64s, 5))
	sStrs := append(verifC10Seqs(eStrs, 3), verifC10Big(999, strs[:6], 0), verifC10Big(1000, strs[:6], 0), verifC10Big(1000, strs[:6], 2))
	verifC10Run(st, verifC10Spec[verifC10One[[]bool]]{name: "One[[]bool]", kinds: []string{"[]bool"}, vals: verifC10Wrap(sBools)})
	verifC10Run(st, verifC10Spec[verifC10One[[]int]]{name: "One[[]int]", kinds: []string{"[]int"}, vals: verifC10Wrap(sInts), sample: true, sampleMin: 2})
	verifC10Run(st, verifC10Spec[verifC10One[[]float64]]{name: "One[[]float64]", kinds: []string{"[]float64"}, vals: verifC10Wrap(sFloats)})
	verifC10Run(st, verifC10Spec[verifC10One[[]string]]{name: "One[[]string]", kinds: []string{"[]string"}, vals: verifC10Wrap(sStrs)})

	// ---- arrays
	verifC10Run(st, verifC10Spec[verifC10One[[3]bool]]{name: "One[[3]bool]", kinds: []string{"[N]bool"}, vals: verifC10Wrap(verifC10Arr3(bools))})
	verifC10Run(st, verifC10Spec[verifC10One[[3]int]]{name: "One[[3]int]", kinds: []string{"[N]int"}, vals: verifC10Wrap(verifC10Arr3(eInts))})
	verifC10Run(st, verifC10Spec[verifC10One[[3]float64]]{name: "One[[3]float64]", kinds: []string{"[N]float64"}, vals: verifC10Wrap(verifC10Arr3(eFloats))})
	verifC10Run(st, verifC10Spec[verifC10One[[3]string]]{name: "One[[3]string]", kinds: []string{"[N]string"}, vals: verifC10Wrap(verifC10Arr3(eStrs))})

	// ---- maps: every map with 0..3 of 4 keys, nil and empty; one map of 1000 and one of 999 entries
	mBools := verifC10Maps(mapKeys, bools, 3)
	mInts := verifC10Maps(mapKeys, eInts[1:4], 3)
	mFloats := verifC10Maps(mapKeys, eFloats[:3], 3)
	mStrs := verifC10Maps(mapKeys, eStrs[:3], 3)
	big1000, big999 := map[string]int{}, map[string]int{}
	for i := 0; i < 1000; i++ {
		big1000["k"+strconv.Itoa(i)] = ints[i%len(ints)]
		if i != 500 {
			big999["k"+strconv.Itoa(i)] = ints[(i+i/7)%len(ints)]
		}
	}
	// two mid-size maps with disjoint key sets (501 + 500 keys)
	mid501, mid500 := map[string]int{}, map[string]int{}
	for i := 0; i < 501; i++ {
		mid501["p"+strconv.Itoa(i)] = i - 250
		if i < 500 {
			mid500["q"+strconv.Itoa(i)] = i
		}
	}
	mInts = append(mInts, big999, big1000, mid501, mid500)
	verifC10Run(st, verifC10Spec[verifC10One[map[string]bool]]{name: "One[map[string]bool]", kinds: []string{"map[string]bool"}, vals: verifC10Wrap(mBools)})
	verifC10Run(st, verifC10Spec[verifC10One[map[string]int]]{name: "One[map[string]int]", kinds: []string{"map[string]int"}, vals: verifC10Wrap(mInts)})
	verifC10Run(st, verifC10Spec[verifC10One[map[string]float64]]{name: "One[map[string]float64]", kinds: []string{"map[string]float64"}, vals: verifC10Wrap(mFloats)})
	verifC10Run(st, verifC10Spec[verifC10One[map[string]string]]{name: "One[map[string]string]", kinds: []string{"map[string]string"}, vals: verifC10Wrap(mStrs), sample: true, sampleMin: 3})

	// ---- all collection kinds side by side
	verifC10Run(st, verifC10Spec[verifC10Colls]{name: "Colls(12 fields)",
		kinds: []string{"[]bool", "[]int", "[]float64", "[]string", "[N]bool", "[N]int", "[N]float64", "[N]string",
			"map[string]bool", "map[string]int", "map[string]float64", "map[string]string"},
		vals: verifC10Combos(verifC10Colls{ID: verifC10ID, Parent: verifC10Par}, []verifC10FV{
			{"SB", verifC10Any([]bool(nil), []bool{true}, []bool{false, true, false}, []bool{false})},
			{"SI", verifC10Any([]int(nil), []int{1, 2, 3}, []int{-verifC10MaxSafe}, []int{0, 0}, []int{})},
			{"SF", verifC10Any([]float64(nil), []float64{0.1, -0.2}, []float64{math.Inf(1), 0, 1}, []float64{0})},
			{"SS", verifC10Any([]string(nil), []string{"a", "", "c"}, []string{""}, []string{"日本", longStr})},
			{"AB", verifC10Any([7]bool{}, [7]bool{false, true, true, true, true, true, false}, [7]bool{true, true, true, true, true, true, true})},
			{"AI", verifC10Any([2]int{}, [2]int{1, -1}, [2]int{verifC10MaxSafe, 0}, [2]int{0, -verifC10MaxSafe})},
			{"AF", verifC10Any([1]float64{}, [1]float64{2.5}, [1]float64{-math.MaxFloat64})},
			{"AS", verifC10Any([2]string{}, [2]string{"x", ""}, [2]string{"", "ü"}, [2]string{longStr, "y"})},
			{"MB", verifC10Any(map[string]bool(nil), map[string]bool{"a": true}, map[string]bool{"a": false, "b": true}, map[string]bool{"b": false})},
			{"MI", verifC10Any(map[string]int(nil), map[string]int{"temp1": 23, "temp2": 40}, map[string]int{"temp2": -1, "0": 0}, map[string]int{})},
			{"MF", verifC10Any(map[string]float64(nil), map[string]float64{"/": 43, "/home": 75}, map[string]float64{"/home": 75.5}, map[string]float64{"/": 0})},
			{"MS", verifC10Any(map[string]string(nil), map[string]string{"hello": "world", "goodbye": "cruel world"},
				map[string]string{"hello": "world!!!", "foo": "bar"}, map[string]string{"ключ": ""})},
		})})

	// ---- flat struct and pointer to flat struct
	flats := verifC10Combos(verifC10Flat{}, []verifC10FV{
		{"Flag", verifC10Any(false, true)},
		{"Count", verifC10Any(0, -1, verifC10MaxSafe)},
		{"Ratio", verifC10Any(0.0, -0.25, math.MaxFloat64)},
		{"Text", verifC10Any("", "nested test type", "тест ✓")},
		{"LongName", verifC10Any(int32(0), int32(math.MinInt32))},
		{"ID", verifC10Any("", "789")},
		{"U8", verifC10Any(uint8(0), uint8(255))},
	})
	pFlats := []*verifC10Flat{nil}
	for i := range flats {
		f := flats[i]
		pFlats = append(pFlats, &f)
	}
	verifC10Run(st, verifC10Spec[verifC10One[verifC10Flat]]{name: "One[Flat]", kinds: []string{"struct(flat)"}, vals: verifC10Wrap(flats)})
	verifC10Run(st, verifC10Spec[verifC10One[*verifC10Flat]]{name: "One[*Flat]", kinds: []string{"*struct(flat)"}, vals: verifC10Wrap(pFlats), sample: true, sampleMin: 2})
	{
		var vals []verifC10Nest
		for i, n := range flats {
			if i%2 == 1 && i > 1 {
				continue
			}
			for j, p := range pFlats {
				if j%3 == 2 {
					continue
				}
				vals = append(vals, verifC10Nest{ID: verifC10ID, Parent: verifC10Par, Desc: []string{"", "d", "описание"}[(i+j)%3], N: n, P: p})
			}
		}
		// make vals[0] the zero config
		vals[0].Desc = ""
		verifC10Run(st, verifC10Spec[verifC10Nest]{name: "Nest(flat + *flat + string)", kinds: []string{"struct(flat)", "*struct(flat)", "string"}, vals: vals})
	}

	// ---- edge fields
	{
		f32 := func(v float32) *float32 { return &v }
		edgeVals := verifC10Combos(verifC10Edge{ID: verifC10ID, Parent: verifC10Par}, []verifC10FV{
			{"Desc", verifC10Any("", "hi there", "описание")},
			{"Role", verifC10Any("", "admin", "user", "rôle ✓")},
			{"Tomb", verifC10Any(false, true)},
			{"Order", verifC10Any(0, 1, -1, verifC10MaxSafe)},
			{"Weight", verifC10Any(0.0, 0.5, -1e-9, math.MaxFloat64)},
			{"PInt", verifC10Any((*int)(nil), verifC10Ptr(0), verifC10Ptr(-verifC10MaxSafe))},
			{"PF32", verifC10Any((*float32)(nil), f32(42), f32(0), f32(-math.MaxFloat32))},
			{"Vals", verifC10Any([]int32(nil), []int32{314, 1024}, []int32{314, 1000, 2048, 4096}, []int32{math.MinInt32}, []int32{0, 0, 0})},
			{"Days", verifC10Any([2]bool{}, [2]bool{true, false}, [2]bool{false, true}, [2]bool{true, true})},
			{"Tags", verifC10Any(map[string]string(nil), map[string]string{"a": "x"}, map[string]string{"a": "y", "b": ""}, map[string]string{"ключ": "значение", "b": "z", "0": "zero"})},
			{"EFlat", verifC10Any(flats[0], flats[3], flats[len(flats)-1])},
			{"PFlat", verifC10Any(pFlats[0], pFlats[1], pFlats[4], pFlats[len(pFlats)-2])},
		})
		verifC10Run(st, verifC10Spec[verifC10Edge]{name: "Edge(edgepoint fields)",
			kinds: []string{"edgepoint:string", "edgepoint:bool", "edgepoint:int", "edgepoint:float64", "edgepoint:*int", "edgepoint:*float32",
				"edgepoint:[]int32", "edgepoint:[N]bool", "edgepoint:map[string]string", "edgepoint:struct(flat)", "edgepoint:*struct(flat)", "string"},
			vals: edgeVals,
			aOnly: []verifC10Edge{
				{ID: "", Parent: "", Role: "admin", Tomb: true},
				{ID: "e2", Parent: "", Role: "user", Vals: []int32{1}},
				{ID: "e3", Parent: "p3", Desc: "d", Order: 7},
			},
			edge: func(a, b verifC10Edge) (Points, error) {
				return DiffPoints(verifC10EdgeTwin(a), verifC10EdgeTwin(b))
			},
			sample: true, sampleMin: 4})
	}

	// ---- child lists
	verifC10Children(st)

	// ---- coverage of kinds
	wantKinds := append([]string{}, scalarKinds...)
	for _, e := range []string{"bool", "int", "float64", "string"} {
		wantKinds = append(wantKinds, "*"+e, "[]"+e, "[N]"+e, "map[string]"+e)
	}
	wantKinds = append(wantKinds, "struct(flat)", "*struct(flat)",
		"edgepoint:string", "edgepoint:bool", "edgepoint:int", "edgepoint:float64", "edgepoint:*int", "edgepoint:*float32",
		"edgepoint:[]int32", "edgepoint:[N]bool", "edgepoint:map[string]string", "edgepoint:struct(flat)", "edgepoint:*struct(flat)", "child")
	var uncovered []string
	for _, k := range wantKinds {
		if st.kindsA[k] == 0 || st.kindsB[k] == 0 {
			uncovered = append(uncovered, k)
		}
	}

	tier := "quick"
	if st.thorough {
		tier = "thorough"
	}
	rule := fmt.Sprintf("tier=%s seed=%d. Real Encode/Decode/DiffPoints/MergePoints/MergeEdgePoints on %d struct types (%s). "+
		"Values: bool {f,t}; int/int64 {0,+-1,+-(2^53-1),int32 limits}; int8/16/32 and uint8/16/32 {0,+-1,min,max}; uint/uint64 {0,1,2^53-1,2^32 or 2^32-1}; "+
		"float32 {0,+-1,0.5,-2.75,0.1f,+-max,smallest}; float64 {0,+-1,0.1,15.43,-1234.5678,2^53,+-max,smallest,+-Inf} (no NaN); "+
		"string {\"\",\"a\",\"0\",\" \",non-ASCII,NUL+invalid UTF-8,6800 bytes}; pointers nil and non-nil; "+
		"slices = every sequence of length 0..3 over a 5-element alphabet (2 for bool) plus nil vs empty plus lengths 999, 1000 and a second 1000; "+
		"arrays [3]T = all 5^3 (2^3); maps = every map with 0..3 of the keys {a,b,0,non-ASCII} (keys non-empty: \"\" is documented as invalid and normalised to \"0\") over 2-3 values, nil vs empty, and for map[string]int maps of 999, 1000, 501 and 500 entries; "+
		"flat struct and *flat struct (tagged and untagged fields); multi-field structs by one-hot + diagonal combinations; edgepoint twins; child lists 0..3 x 0..3 with grandchildren (Decode only, plus merge into a child by id). "+
		"Integers restricted to +-(2^53-1) and lengths to <=1000 as documented (Encode rejects more). "+
		"A: every value (%d). B: ordered pairs of the values of each type, |domain| = %d pairs, evaluated %d (%.1f%%; quick = all pairs with the zero config on either side + a seeded 15%% of the rest). "+
		"Edge fields in B: DiffPoints skips edgepoint fields by design, so the edge diff is DiffPoints on a `point:`-tag twin of the struct, applied with MergeEdgePoints. "+
		"Equality: reflect.DeepEqual with nil == empty for slices/maps (as the library's tests, which check len==0). "+
		"Non-trivial: A = the config is not the zero config (ids ignored); B = a != b (non-empty diff); distinct = distinct (contract, type, sha256 of the rendered value(s)) keys in a map, nil/empty renderings identified.",
		tier, st.seed, len(st.types), strings.Join(st.types, ", "), st.valuesA, st.pairDomain, st.pairsRun,
		100*float64(st.pairsRun)/float64(st.pairDomain))

	first := st.first
	if first == nil {
		first = []verifC10Mismatch{}
	}
	samples := st.samples
	if samples == nil {
		samples = []string{}
	}
	res := map[string]any{
		"evaluations":         st.evaluations,
		"distinct_nontrivial": len(st.distinct),
		"rule":                rule,
		"samples":             samples,
		"exhaustive":          st.thorough,
		"mismatches":          st.mismatches,
		"first_mismatches":    first,
		"field_kinds":         wantKinds,
		"contracts":           "A: Decode(Encode(x)) == x; B: Merge(Diff(a,b), decode(a)) == b",
		"panics":              st.panics,
		"mismatch_classes":    st.classes,
		"uncovered_kinds":     uncovered,
		"tier":                tier,
		"seed":                st.seed,
		"pairs_domain":        st.pairDomain,
		"pairs_evaluated":     st.pairsRun,
		"elapsed_ms":          time.Since(start).Milliseconds(),
	}
	if uncovered == nil {
		res["uncovered_kinds"] = []string{}
	}
	out, _ := json.Marshal(res)
	fmt.Println("C10-RESULT " + string(out))
	if p := os.Getenv("VERIF_C10_OUT"); p != "" {
		if err := os.WriteFile(p, out, 0o644); err != nil {
			t.Errorf("cannot write %s: %v", p, err)
		}
	}
	if len(uncovered) > 0 {
		t.Errorf("harness error: field kinds not covered by both contracts: %v", uncovered)
	}
	if st.mismatches > 0 || st.panics > 0 {
		t.Fatalf("C10: %d mismatches (%d panics); first: %+v", st.mismatches, st.panics, st.first[0])
	}
}
