package client_test

// Replay for finding D24 (C07): a node whose points cannot be decoded into the client's configuration type
// (here: a negative value for an unsigned field; a non-numeric key for a slice field does the same) makes newClientState fail; (*Manager).scan logged the error and then
// went on with the nil client state (nil dereference: the manager, and with it the whole process, panics).
// Expected: the manager keeps running, no client is constructed for that node, other nodes get their client.

import (
	"testing"
	"time"

	"github.com/nats-io/nats.go"
	"github.com/simpleiot/simpleiot/client"
	"github.com/simpleiot/simpleiot/data"
	"github.com/simpleiot/simpleiot/server"
)

type verifC07Node struct {
	ID          string `node:"id"`
	Parent      string `node:"parent"`
	Description string `point:"description"`
	Port        uint16 `point:"port"`
}

type verifC07Client struct {
	stop chan struct{}
}

func (c *verifC07Client) Run() error                            { <-c.stop; return nil }
func (c *verifC07Client) Stop(_ error)                          { close(c.stop) }
func (c *verifC07Client) Points(_ string, _ []data.Point)       {}
func (c *verifC07Client) EdgePoints(_, _ string, _ []data.Point) {}

func TestVerifC07CtorFail(t *testing.T) {
	nc, root, stop, err := server.TestServer()
	if err != nil {
		t.Fatal("Error starting test server: ", err)
	}
	defer stop()

	good := verifC07Node{"ID-good", root.ID, "good", 1}
	if err := client.SendNodeType(nc, good, "test"); err != nil {
		t.Fatal(err)
	}
	bad := verifC07Node{"ID-bad", root.ID, "bad", 2}
	if err := client.SendNodeType(nc, bad, "test"); err != nil {
		t.Fatal(err)
	}
	// a negative value for a uint16 field: Decode returns "uint overflow"
	if err := client.SendNodePoint(nc, "ID-bad", data.Point{Type: "port", Value: -5, Origin: "test"}, true); err != nil {
		t.Fatal(err)
	}

	made := make(chan verifC07Node, 10)
	m := client.NewManager(nc, func(_ *nats.Conn, config verifC07Node) client.Client {
		made <- config
		return &verifC07Client{stop: make(chan struct{})}
	}, nil)

	done := make(chan interface{}, 1)
	go func() {
		defer func() { done <- recover() }()
		_ = m.Run()
	}()

	gotGood := false
	timeout := time.After(15 * time.Second)
loop:
	for {
		select {
		case c := <-made:
			if c.ID == "ID-bad" {
				t.Errorf("a client was constructed for the node that cannot be decoded: %+v", c)
			}
			if c.ID == "ID-good" {
				gotGood = true
			}
		case r := <-done:
			t.Fatalf("manager Run ended early (panic: %v)", r)
		case <-timeout:
			break loop
		case <-time.After(500 * time.Millisecond):
			if gotGood {
				break loop
			}
		}
	}
	if !gotGood {
		t.Errorf("no client was constructed for the decodable node")
	}
	m.Stop(nil)
	select {
	case r := <-done:
		if r != nil {
			t.Fatalf("manager panicked: %v", r)
		}
	case <-time.After(7 * time.Second):
		t.Fatalf("manager did not stop")
	}
}
