package main

import (
	"bufio"
	"bytes"
	"context"
	"fmt"
	"os"
	"os/exec"
	"path/filepath"
	"sort"
	"strings"
	"sync"
	"sync/atomic"
	"time"
)

type solverSpec struct {
	name string
	args func(timeoutS int, file string) []string
	bin  string
}

var solvers = []solverSpec{
	{name: "z3-5.1.0", bin: "z3-new", args: func(t int, f string) []string { return []string{fmt.Sprintf("-T:%d", t), f} }},
	{name: "z3-5.1.0/noauto", bin: "z3-new", args: func(t int, f string) []string { return []string{fmt.Sprintf("-T:%d", t), "auto_config=false", f} }},
	{name: "z3-4.8.12", bin: "z3", args: func(t int, f string) []string { return []string{fmt.Sprintf("-T:%d", t), f} }},
	{name: "cvc5-1.0", bin: "cvc5", args: func(t int, f string) []string {
		return []string{fmt.Sprintf("--tlimit=%d", t*1000), "--produce-models", f}
	}},
}

// renderQuery produces the SMT-LIB text of an obligation
func renderQuery(o *obligation, withModel bool, extra []string) string {
	c := o.c
	var sb strings.Builder
	sb.WriteString("(set-option :produce-models true)\n(set-logic ALL)\n")
	// collect needed assertions: all non-definition conjuncts, and definitions of reachable names
	needed := map[string]bool{}
	collectAtoms(o.goal, needed)
	var keep []*T
	isDef := func(t *T) (string, bool) {
		n, ok := c.defAsserts[t]
		return n, ok
	}
	for _, a := range o.pc {
		if _, d := isDef(a); !d {
			collectAtoms(a, needed)
		}
	}
	var strExt []*T
	for _, f := range c.twins {
		at := map[string]bool{}
		collectAtoms(f, at)
		ok := true
		for n := range at {
			if _, isConst := c.d.consts[n]; isConst && !needed[n] {
				ok = false
			}
		}
		if ok {
			strExt = append(strExt, f)
		}
	}
	for _, f := range c.strExt {
		at := map[string]bool{}
		collectAtoms(f, at)
		ok := true
		for n := range at {
			if _, isConst := c.d.consts[n]; isConst && !needed[n] {
				ok = false
			}
		}
		if ok {
			strExt = append(strExt, f)
		}
	}
	// package axioms are only relevant if they share a declared (uninterpreted) function symbol with the rest of
	// the query; irrelevant quantified axioms only perturb the solvers' heuristics
	funSyms := func(t *T, into map[string]bool) {
		var walk func(u *T)
		walk = func(u *T) {
			if len(u.args) > 0 {
				if _, ok := c.d.funs[u.op]; ok {
					into[u.op] = true
				}
				for _, a := range u.args {
					walk(a)
				}
			}
		}
		walk(t)
	}
	dropAxiom := map[*T]bool{}
	if len(c.axiomAsserts) > 0 {
		used := map[string]bool{}
		funSyms(o.goal, used)
		var axs []*T
		for _, a := range o.pc {
			if c.axiomAsserts[a] {
				axs = append(axs, a)
			} else {
				funSyms(a, used)
			}
		}
		axSyms := map[*T]map[string]bool{}
		for _, a := range axs {
			m := map[string]bool{}
			funSyms(a, m)
			axSyms[a] = m
			dropAxiom[a] = true
		}
		for changed := true; changed; {
			changed = false
			for _, a := range axs {
				if !dropAxiom[a] {
					continue
				}
				for sname := range axSyms[a] {
					if used[sname] {
						dropAxiom[a] = false
						for s2 := range axSyms[a] {
							used[s2] = true
						}
						changed = true
						break
					}
				}
			}
		}
	}
	for i := len(o.pc) - 1; i >= 0; i-- {
		a := o.pc[i]
		if dropAxiom[a] {
			continue
		}
		if n, d := isDef(a); d {
			if !needed[n] {
				continue
			}
			collectAtoms(a.args[1], needed)
		}
		keep = append(keep, a)
	}
	// facts about string literals: only for the literals the query mentions
	lits := c.strLitAxioms(needed)
	for _, a := range lits {
		collectAtoms(a, needed)
	}
	// declarations
	d := c.d
	for _, s := range d.sorts {
		fmt.Fprintf(&sb, "(declare-sort %s 0)\n", s)
	}
	if len(d.datatypes) > 0 {
		sb.WriteString("(declare-datatypes (")
		for _, dt := range d.datatypes {
			fmt.Fprintf(&sb, "(%s 0) ", dt.name)
		}
		sb.WriteString(") (\n")
		for _, dt := range d.datatypes {
			sb.WriteString(" (")
			for _, ct := range dt.ctors {
				sb.WriteString("(" + ct.name)
				for _, f := range ct.fields {
					fmt.Fprintf(&sb, " (%s %s)", f.name, f.sort)
				}
				sb.WriteString(") ")
			}
			sb.WriteString(")\n")
		}
		sb.WriteString("))\n")
	}
	for _, n := range d.funOrder {
		sb.WriteString(d.funs[n])
		sb.WriteByte('\n')
	}
	for _, n := range d.constOrd {
		if needed[n] {
			fmt.Fprintf(&sb, "(declare-const %s %s)\n", n, d.consts[n])
		}
	}
	if c.usesIx {
		sb.WriteString("(declare-fun ix (Int Int) Int)\n(assert (forall ((o Int) (k Int)) (! (= (ix o k) (+ o k)) :pattern ((ix o k)))))\n")
	}
	if c.usesBits {
		sb.WriteString(bitAxioms)
	}
	for _, name := range sortedIntKeys(c.wideBitFns) {
		w := c.wideBitFns[name]
		lim := pow2(w).String()
		fmt.Fprintf(&sb, "(assert (forall ((a Int) (b Int)) (! (=> (and (<= 0 a) (< a %s) (<= 0 b) (< b %s)) (and (<= 0 (%s a b)) (< (%s a b) %s))) :pattern ((%s a b)))))\n", lim, lim, name, name, lim, name)
		if strings.HasPrefix(name, "ixor") {
			fmt.Fprintf(&sb, "(assert (forall ((a Int)) (! (= (%s a a) 0) :pattern ((%s a a)))))\n", name, name)
			fmt.Fprintf(&sb, "(assert (forall ((a Int)) (! (= (%s a 0) a) :pattern ((%s a 0)))))\n", name, name)
			fmt.Fprintf(&sb, "(assert (forall ((a Int)) (! (= (%s 0 a) a) :pattern ((%s 0 a)))))\n", name, name)
		}
	}
	for _, f := range c.facts {
		if needed[f.sym] {
			sb.WriteString("(assert ")
			f.t.write(&sb)
			sb.WriteString(")\n")
		}
	}
	for _, a := range lits {
		sb.WriteString("(assert ")
		a.write(&sb)
		sb.WriteString(")\n")
	}
	for _, a := range strExt {
		sb.WriteString("(assert ")
		a.write(&sb)
		sb.WriteString(")\n")
	}
	for i := len(keep) - 1; i >= 0; i-- {
		sb.WriteString("(assert ")
		keep[i].write(&sb)
		sb.WriteString(")\n")
	}
	sb.WriteString("(assert (not ")
	o.goal.write(&sb)
	sb.WriteString("))\n(check-sat)\n")
	if withModel {
		if len(extra) > 0 {
			sb.WriteString("(get-value (" + strings.Join(extra, " ") + "))\n")
		} else {
			sb.WriteString("(get-model)\n")
		}
	}
	return sb.String()
}

func sortedIntKeys(m map[string]int) []string {
	var ks []string
	for k := range m {
		ks = append(ks, k)
	}
	sort.Strings(ks)
	return ks
}

type solveResult struct {
	status  string
	solver  string
	seconds float64
	output  string
	all     map[string]string
}

// runSolvers races the portfolio on a query file
func runSolvers(file string, timeoutS int, only string) solveResult {
	ctx, cancel := context.WithTimeout(context.Background(), time.Duration(timeoutS+2)*time.Second)
	defer cancel()
	type one struct {
		name, status, out string
		secs              float64
	}
	ch := make(chan one, len(solvers))
	n := 0
	for _, s := range solvers {
		if only != "" && s.name != only {
			continue
		}
		n++
		go func(s solverSpec) {
			t0 := time.Now()
			cmd := exec.CommandContext(ctx, s.bin, s.args(timeoutS, file)...)
			var out bytes.Buffer
			cmd.Stdout = &out
			cmd.Stderr = &out
			_ = cmd.Run()
			st := "unknown"
			sc := bufio.NewScanner(bytes.NewReader(out.Bytes()))
			for sc.Scan() {
				l := strings.TrimSpace(sc.Text())
				if l == "unsat" || l == "sat" || l == "unknown" || l == "timeout" {
					st = l
					break
				}
				if strings.HasPrefix(l, "(error") {
					st = "error"
					break
				}
			}
			if st == "timeout" {
				st = "unknown"
			}
			ch <- one{s.name, st, out.String(), time.Since(t0).Seconds()}
		}(s)
	}
	res := solveResult{status: "unknown", all: map[string]string{}}
	for i := 0; i < n; i++ {
		r := <-ch
		res.all[r.name] = r.status
		if r.status == "unsat" || r.status == "sat" {
			res.status = r.status
			res.solver = r.name
			res.seconds = r.secs
			res.output = r.out
			cancel()
			// drain remaining without waiting for their answers
			go func(k int) {
				for j := 0; j < k; j++ {
					<-ch
				}
			}(n - i - 1)
			return res
		}
		if r.status == "error" {
			res.output += r.name + ": " + firstLines(r.out, 3) + "\n"
		}
		if r.secs > res.seconds {
			res.seconds = r.secs
		}
	}
	return res
}

func firstLines(s string, n int) string {
	ls := strings.Split(s, "\n")
	if len(ls) > n {
		ls = ls[:n]
	}
	return strings.Join(ls, "\n")
}

// discharge solves all obligations with a worker pool
func discharge(obls []*obligation, dir string, timeoutS int, workers int) {
	var wg sync.WaitGroup
	ch := make(chan int)
	for w := 0; w < workers; w++ {
		wg.Add(1)
		go func() {
			defer wg.Done()
			for i := range ch {
				o := obls[i]
				if o.status == "trivial" {
					continue
				}
				q := renderQuery(o, false, nil)
				f := filepath.Join(dir, fmt.Sprintf("q%05d.smt2", i))
				if err := os.WriteFile(f, []byte(q), 0o644); err != nil {
					o.status = "unknown"
					o.detail = err.Error()
					continue
				}
				r := runSolvers(f, 1, "z3-5.1.0/noauto")
				if r.status != "unsat" && r.status != "sat" && !o.expectSat {
					// once many obligations have failed the run is lost anyway: do not spend the full timeout on each of
					// the remaining ones (a broken function can have thousands)
					t := timeoutS
					if atomic.LoadInt32(&failedSoFar) >= 5 && t > 3 {
						t = 3
					}
					r = runSolvers(f, t, "")
				}
				if r.status != "unsat" && !o.expectSat {
					atomic.AddInt32(&failedSoFar, 1)
				}
				o.status = r.status
				o.solver = r.solver
				o.seconds = r.seconds
				if r.status == "unknown" {
					var parts []string
					for k, v := range r.all {
						parts = append(parts, k+"="+v)
					}
					o.detail = strings.Join(parts, " ") + " " + r.output
				}
				if r.status == "sat" && !o.expectSat {
					// second run for a model
					q2 := renderQuery(o, true, nil)
					f2 := filepath.Join(dir, fmt.Sprintf("q%05d.model.smt2", i))
					_ = os.WriteFile(f2, []byte(q2), 0o644)
					r2 := runSolvers(f2, timeoutS, r.solver)
					o.model = r2.output
				} else if os.Getenv("GOVC_KEEP") == "" {
					os.Remove(f)
				}
			}
		}()
	}
	for i := range obls {
		ch <- i
	}
	close(ch)
	wg.Wait()
}

var failedSoFar int32

// Abstract bit functions used in int mode for single-bit operations with a symbolic
// bit index. bitof(v,n) is bit n of the non-negative integer v, setbit(v,n,b) is v with
// bit n forced to b. The axioms are facts of binary arithmetic; B1, B2, B5 and the range
// facts are also proved for 8/16-bit vectors as lemmas (see contracts of package modbus).
const bitAxioms = `(declare-fun bitof (Int Int) Bool)
(declare-fun setbit (Int Int Bool) Int)
(assert (forall ((v Int) (n Int) (b Bool)) (! (=> (>= n 0) (= (bitof (setbit v n b) n) b)) :pattern ((setbit v n b)))))
(assert (forall ((v Int) (n Int) (m Int) (b Bool)) (! (=> (not (= n m)) (= (bitof (setbit v n b) m) (bitof v m))) :pattern ((bitof (setbit v n b) m)))))
(assert (forall ((n Int)) (! (not (bitof 0 n)) :pattern ((bitof 0 n)))))
(assert (forall ((v Int) (n Int) (b Bool)) (! (=> (and (<= 0 v) (< v 256) (<= 0 n) (< n 8)) (and (<= 0 (setbit v n b)) (< (setbit v n b) 256))) :pattern ((setbit v n b)))))
(assert (forall ((v Int) (n Int) (b Bool)) (! (=> (and (<= 0 v) (< v 65536) (<= 0 n) (< n 16)) (and (<= 0 (setbit v n b)) (< (setbit v n b) 65536))) :pattern ((setbit v n b)))))
(assert (forall ((v Int) (n Int) (b Bool)) (! (=> (= (bitof v n) b) (= (setbit v n b) v)) :pattern ((setbit v n b)))))
`
