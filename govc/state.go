package main

import (
	"fmt"
	"go/constant"
	"go/token"
	"go/types"

	"golang.org/x/tools/go/ssa"
)

// Val is a value of the symbolic executor
type Val struct {
	t     *T             // SMT term (scalars, aggregates, heap refs)
	typ   types.Type     // Go type (nil for untyped constants from contracts)
	ptr   *Ptr           // executor-level pointer (cell or interior pointer)
	fn    *FnVal         // function value
	tup   []Val          // tuple
	konst constant.Value // untyped numeric constant (contracts)
}

type ptrKind int

const (
	pkCell ptrKind = iota
	pkHeap
	pkElem
)

type pathEl struct {
	field int
	idx   *T
	isIdx bool
	typ   types.Type // type after applying this element
}

type Ptr struct {
	kind ptrKind
	cell *Cell
	ref  *T         // pkHeap: object ref; pkElem: array ref
	idx  *T         // pkElem: absolute element index
	base types.Type // type of the root object / element
	path []pathEl
}

func (p *Ptr) elemType() types.Type {
	if len(p.path) > 0 {
		return p.path[len(p.path)-1].typ
	}
	return p.base
}

func (p *Ptr) extend(e pathEl) *Ptr {
	np := *p
	np.path = append(append([]pathEl{}, p.path...), e)
	return &np
}

type Cell struct {
	name  string
	typ   types.Type
	alloc *ssa.Alloc
	id    int
}

type FnVal struct {
	fn       *ssa.Function // static function or closure body
	bindings []Val         // closure bindings (pointers to captured cells)
	recv     *Val          // bound method receiver (for interface method values)
	method   *types.Func   // interface method (when recv is an interface)
}

// state is one symbolic path state. Maps are copied on fork.
type state struct {
	cells   map[*Cell]Val
	heaps   map[string]*T // sort -> Array Int sort
	arrs    map[string]*T // elem sort -> Array Int (Array I elem)
	tokens  map[string]*T // abstract state tokens by interface/type key
	ghost   map[string]*T
	pc      []*T
	low     *T       // lowest reference allocated so far (fresh references are low-1, low-2, ...); initially 0
	assumed []string // names of axioms / external contracts assumed on this path
}

func (s *state) lowRef() *T {
	if s.low == nil {
		return refConst(0)
	}
	return s.low
}

func newState() *state {
	return &state{cells: map[*Cell]Val{}, heaps: map[string]*T{}, arrs: map[string]*T{}, tokens: map[string]*T{}, ghost: map[string]*T{}}
}

func (s *state) clone() *state {
	n := &state{cells: make(map[*Cell]Val, len(s.cells)), heaps: make(map[string]*T, len(s.heaps)), arrs: make(map[string]*T, len(s.arrs)),
		tokens: make(map[string]*T, len(s.tokens)), ghost: make(map[string]*T, len(s.ghost)), low: s.low}
	for k, v := range s.cells {
		n.cells[k] = v
	}
	for k, v := range s.heaps {
		n.heaps[k] = v
	}
	for k, v := range s.arrs {
		n.arrs[k] = v
	}
	for k, v := range s.tokens {
		n.tokens[k] = v
	}
	for k, v := range s.ghost {
		n.ghost[k] = v
	}
	n.pc = s.pc[:len(s.pc):len(s.pc)]
	n.assumed = s.assumed[:len(s.assumed):len(s.assumed)]
	return n
}

func (s *state) assume(t *T) {
	if isTrue(t) {
		return
	}
	s.pc = append(s.pc, t)
}

// ---- memory access ----------------------------------------------------------

type mem struct {
	c  *ctx
	st *state
}

func heapKey(t types.Type) string {
	t = types.Unalias(t)
	if b, ok := t.(*types.Basic); ok {
		return types.Typ[b.Kind()].Name() // byte == uint8, rune == int32
	}
	return sanitize(typeKey(t))
}

// heap0 is the initial object heap of pointee type t
func (c *ctx) heap0(t types.Type) *T {
	k := heapKey(t)
	name := "H0_" + k
	if _, ok := c.d.consts[name]; !ok {
		h := c.d.constant(name, arraySort("Int", c.sortOf(t)))
		qcounter++
		r := atom(fmt.Sprintf("r!%d", qcounter), "Int")
		f := c.valueWF(mkSelect(h, r), t)
		if !isTrue(f) {
			c.facts = append(c.facts, symFact{name, app(fmt.Sprintf("forall ((%s Int))", r.op), "Bool", f)})
		}
	}
	return atom(name, arraySort("Int", c.sortOf(t)))
}

// arr0 is the initial array heap of element type t
func (c *ctx) arr0(t types.Type) *T {
	k := heapKey(t)
	name := "A0_" + k
	srt := arraySort("Int", arraySort(c.intSort(), c.sortOf(t)))
	if _, ok := c.d.consts[name]; !ok {
		h := c.d.constant(name, srt)
		qcounter++
		r := atom(fmt.Sprintf("r!%d", qcounter), "Int")
		i := atom(fmt.Sprintf("i!%d", qcounter), c.intSort())
		f := c.valueWF(mkSelect(mkSelect(h, r), i), t)
		if !isTrue(f) {
			c.facts = append(c.facts, symFact{name, app(fmt.Sprintf("forall ((%s Int) (%s %s))", r.op, i.op, i.sort), "Bool", f)})
		}
	}
	return atom(name, srt)
}

// freshArr is a fresh (havocked) inner array of element type t with value well-formedness
func (c *ctx) freshArr(prefix string, t types.Type) *T {
	a := c.d.fresh(prefix, arraySort(c.intSort(), c.sortOf(t)))
	qcounter++
	i := atom(fmt.Sprintf("i!%d", qcounter), c.intSort())
	f := c.valueWF(mkSelect(a, i), t)
	if !isTrue(f) {
		c.facts = append(c.facts, symFact{a.op, app(fmt.Sprintf("forall ((%s %s))", i.op, i.sort), "Bool", f)})
	}
	return a
}

func (c *ctx) heapOf(st *state, t types.Type) *T {
	k := heapKey(t)
	if h, ok := st.heaps[k]; ok {
		return h
	}
	h := c.heap0(t)
	st.heaps[k] = h
	return h
}

func (c *ctx) arrOf(st *state, t types.Type) *T {
	k := heapKey(t)
	if h, ok := st.arrs[k]; ok {
		return h
	}
	h := c.arr0(t)
	st.arrs[k] = h
	return h
}

func (c *ctx) setHeap(st *state, t types.Type, h *T) {
	st.heaps[heapKey(t)] = c.name(st, "H_"+heapKey(t), h)
}
func (c *ctx) setArr(st *state, t types.Type, h *T) {
	st.arrs[heapKey(t)] = c.name(st, "A_"+heapKey(t), h)
}

// name introduces a named constant for a big term to keep queries linear in size.
func (c *ctx) name(st *state, prefix string, t *T) *T {
	if t.isAtom() {
		return t
	}
	n := c.d.fresh(prefix, t.sort)
	n.def = t
	c.defNames[n.op] = true
	da := app("=", "Bool", atom(n.op, n.sort), t)
	c.defAsserts[da] = n.op
	st.assume(da)
	return n
}

func (c *ctx) freshRef(st *state) *T {
	if st.low == nil {
		st.low = refConst(0)
	}
	if v, ok := numeralValue(st.low); ok && v.IsInt64() {
		st.low = refConst(v.Int64() - 1)
	} else {
		// symbolic allocation base (inside a loop body): base - k
		base, k := st.low, int64(0)
		if st.low.op == "-" && len(st.low.args) == 2 {
			if kv, ok := numeralValue(st.low.args[1]); ok {
				base, k = st.low.args[0], kv.Int64()
			}
		}
		st.low = app("-", "Int", base, refConst(k+1))
	}
	return st.low
}

// loadRoot reads the root object of a pointer
func (c *ctx) loadRoot(st *state, p *Ptr) *T {
	switch p.kind {
	case pkCell:
		v, ok := st.cells[p.cell]
		if !ok {
			panic(fmt.Sprintf("cell %s not initialised", p.cell.name))
		}
		if v.t == nil {
			panic(unsupported("load through cell holding executor-level value: " + p.cell.name))
		}
		return v.t
	case pkHeap:
		return mkSelect(c.heapOf(st, p.base), p.ref)
	case pkElem:
		return mkSelect(mkSelect(c.arrOf(st, p.base), p.ref), p.idx)
	}
	panic("bad ptr kind")
}

func (c *ctx) applyPath(root *T, base types.Type, path []pathEl) *T {
	cur := root
	ct := base
	for _, e := range path {
		if e.isIdx {
			cur = mkSelect(cur, e.idx)
		} else {
			si := c.structOf(ct)
			cur = mkSel(si.ctor, e.field, cur)
		}
		ct = e.typ
	}
	return cur
}

func (c *ctx) updatePath(root *T, base types.Type, path []pathEl, v *T) *T {
	if len(path) == 0 {
		return v
	}
	e := path[0]
	if e.isIdx {
		inner := c.updatePath(mkSelect(root, e.idx), e.typ, path[1:], v)
		return mkStore(root, e.idx, inner)
	}
	si := c.structOf(base)
	inner := c.updatePath(mkSel(si.ctor, e.field, root), e.typ, path[1:], v)
	return mkUpd(si.dt, si.ctor, e.field, root, inner)
}

// load reads through a pointer
func (c *ctx) load(st *state, p *Ptr) Val {
	if p.kind == pkCell && len(p.path) == 0 {
		v, ok := st.cells[p.cell]
		if !ok {
			panic(fmt.Sprintf("cell %s not initialised", p.cell.name))
		}
		return v
	}
	root := c.loadRoot(st, p)
	t := c.applyPath(root, p.base, p.path)
	return Val{t: t, typ: p.elemType()}
}

// store writes through a pointer
func (c *ctx) store(st *state, p *Ptr, v Val) {
	if p.kind == pkCell && len(p.path) == 0 {
		st.cells[p.cell] = v
		return
	}
	vt := c.termOf(v)
	switch p.kind {
	case pkCell:
		root := c.loadRoot(st, p)
		nt := c.updatePath(root, p.base, p.path, vt)
		st.cells[p.cell] = Val{t: nt, typ: p.base}
	case pkHeap:
		h := c.heapOf(st, p.base)
		root := mkSelect(h, p.ref)
		nt := c.updatePath(root, p.base, p.path, vt)
		c.setHeap(st, p.base, mkStore(h, p.ref, nt))
	case pkElem:
		a := c.arrOf(st, p.base)
		arr := mkSelect(a, p.ref)
		root := mkSelect(arr, p.idx)
		nt := c.updatePath(root, p.base, p.path, vt)
		c.setArr(st, p.base, mkStore(a, p.ref, mkStore(arr, p.idx, nt)))
	}
}

// termOf converts a value to an SMT term (pointers must be whole-object heap pointers)
func (c *ctx) termOf(v Val) *T {
	if v.t != nil {
		return v.t
	}
	if v.ptr != nil {
		if v.ptr.kind == pkHeap && len(v.ptr.path) == 0 {
			return v.ptr.ref
		}
		if v.ptr.kind == pkHeap {
			fieldsOnly := true
			name := "iptr_" + sanitize(heapKey(v.ptr.base))
			for _, e := range v.ptr.path {
				if e.isIdx {
					fieldsOnly = false
				}
				name += fmt.Sprintf("_%d", e.field)
			}
			if fieldsOnly {
				if c.iptrs == nil {
					c.iptrs = map[string]iptrInfo{}
				}
				c.iptrs[name] = iptrInfo{base: v.ptr.base, path: v.ptr.path}
				c.d.fun(name, []string{"Int"}, "Int")
				return app(name, "Int", v.ptr.ref)
			}
		}
		if v.ptr.kind == pkElem && len(v.ptr.path) == 0 && v.ptr.idx != nil {
			// pointer to a slice/array element: eptr_T(ref, index)
			name := "eptr_" + sanitize(heapKey(v.ptr.base))
			if c.eptrs == nil {
				c.eptrs = map[string]types.Type{}
			}
			c.eptrs[name] = v.ptr.base
			c.d.fun(name, []string{"Int", c.intSort()}, "Int")
			return app(name, "Int", v.ptr.ref, v.ptr.idx)
		}
		panic(unsupported("interior or stack pointer escapes to memory"))
	}
	if v.fn != nil {
		panic(unsupported("function value stored to symbolic memory"))
	}
	if v.konst != nil {
		panic("untyped constant needs a type")
	}
	panic("value has no term")
}

// ptrOf converts a pointer-typed value to an executor pointer
func (c *ctx) ptrOf(v Val) *Ptr {
	if v.ptr != nil {
		return v.ptr
	}
	if v.t == nil {
		panic("not a pointer value")
	}
	pt, ok := v.typ.Underlying().(*types.Pointer)
	if !ok {
		panic("ptrOf: not a pointer type: " + v.typ.String())
	}
	if u := v.t.un(); len(u.args) == 1 {
		if info, ok := c.iptrs[u.op]; ok {
			return &Ptr{kind: pkHeap, ref: u.args[0], base: info.base, path: info.path}
		}
	}
	if u := v.t.un(); len(u.args) == 2 {
		if bt, ok := c.eptrs[u.op]; ok {
			return &Ptr{kind: pkElem, ref: u.args[0], idx: u.args[1], base: bt}
		}
	}
	return &Ptr{kind: pkHeap, ref: v.t, base: pt.Elem()}
}

// nonNil gives the term "pointer is not nil"
func (c *ctx) ptrNonNil(p *Ptr) *T {
	switch p.kind {
	case pkCell:
		return tTrue
	case pkHeap:
		return mkNot(mkEq(p.ref, refConst(0)))
	case pkElem:
		return tTrue
	}
	return tTrue
}

// slice well-formedness (assumed for inputs / values read from the initial heap)
func (c *ctx) sliceWF(s *T) *T {
	z := c.I(0)
	maxLen := c.I(1 << 40)
	le := func(a, b *T) *T { return c.cmp(token.LEQ, a, b, types.Typ[types.Int]) }
	return mkAnd(
		le(z, c.slOff(s)), le(c.slOff(s), maxLen),
		le(z, c.slLen(s)), le(c.slLen(s), c.slCap(s)), le(c.slCap(s), maxLen),
		app(">=", "Bool", c.slRef(s), refConst(0)),
		mkImp(mkEq(c.slRef(s), refConst(0)), mkEq(c.slCap(s), z)),
	)
}

// inputWF gives well-formedness assumptions of a symbolic input value of Go type t
// (one level: range of integers, slice shape, non-negative refs, struct fields).
func (c *ctx) inputWF(x *T, t types.Type) *T {
	if isTimeType(t) {
		return tTrue
	}
	if w, s, ok := intInfo(t); ok {
		return c.inRange(x, w, s)
	}
	switch u := t.Underlying().(type) {
	case *types.Slice:
		return c.sliceWF(x)
	case *types.Pointer, *types.Map:
		return app(">=", "Bool", x, refConst(0))
	case *types.Struct:
		si := c.structOf(t)
		var cs []*T
		for i := 0; i < u.NumFields(); i++ {
			cs = append(cs, c.inputWF(mkSel(si.ctor, i, x), u.Field(i).Type()))
		}
		return mkAnd(cs...)
	case *types.Basic:
		if isString(t) {
			return mkAnd(c.cmp(token.LEQ, c.I(0), app("slen", c.intSort(), x), types.Typ[types.Int]),
				c.cmp(token.LEQ, app("slen", c.intSort(), x), c.I(1<<40), types.Typ[types.Int]))
		}
	}
	return tTrue
}
