package main

import (
	"fmt"
	"go/scanner"
	"go/token"
	"os"
	"path/filepath"
	"regexp"
	"strconv"
	"strings"
)

// ---- expression AST -------------------------------------------------------

type Expr interface{}

type EIdent struct{ Name string }
type ELit struct {
	Kind token.Token
	Val  string
}
type EBin struct {
	Op   string
	X, Y Expr
}
type EUn struct {
	Op string
	X  Expr
}
type ECall struct {
	Fun  Expr
	Args []Expr
}
type EIndex struct{ X, I Expr }
type ESlice struct{ X, Lo, Hi Expr }
type ESel struct {
	X    Expr
	Name string
}
type EQuant struct {
	Forall bool
	Vars   []binder
	Body   Expr
}
type EType struct{ Text string } // a parenthesised or composite type used in conversion position

type binder struct {
	Name string
	Type string
}

// ---- contracts ------------------------------------------------------------

type clause struct {
	tags  []string
	label string
	e     Expr
	text  string
	line  string // file:line
}

type loopContract struct {
	key        string // ordinal number or label
	invariants []*clause
	modifies   []*clause
	decreases  *clause
	used       bool
	merge      bool // top-level loop: the paths arriving at the loop are merged into one continuation
}

type atClause struct {
	kind string // "assert" | "assume" | "ghost"
	cl   *clause
	stmt string
	nth  int
	used bool
	eff  map[interface{}]string // statement text with renamed locals substituted (per function and position)
}

type funcContract struct {
	key          string // pkg.(*T).M
	file         string
	props        []string
	mode         string
	options      map[string]bool
	inline       bool
	summary      bool   // closure: calls use this contract instead of inlining the body
	selfVar      string // closure: the captured variable that holds the closure itself (recursion)
	wrap64       bool
	localAnchors map[string]localAnchor // name -> (type, ordinal among named locals of that type): survives renames
	pure         bool
	trusted      bool // extern: contract is assumed, body never verified
	requires     []*clause
	ensures      []*clause
	assumed      []*clause // postconditions assumed at call sites but not checked on the body (listed as assumptions)
	modifies     []*clause
	decreases    *clause
	loops        []*loopContract
	implements   string
	params       []string // for extern: parameter names in order (incl. receiver first if any)
	results      []string
	ats          []*atClause
	fresh        bool      // result slice is freshly allocated by the callee
	freshExprs   []*clause // post-state expressions (slices) that the callee allocated
	reallocs     []*clause // slices whose backing array after the call is the old one or a freshly allocated one
	nofail       bool
	dispatch     map[string]string // interface type name -> concrete receiver type text (devirtualisation, justified by a requires clause)
}

type specFunc struct {
	name   string
	params []binder
	ret    string
	body   Expr // nil => uninterpreted
	model  bool // abstract-state observer
	seq    bool // uninterpreted function of the contents of its slice arguments
	opaque bool // uninterpreted over the heap pieces named by reads
	reads  []Expr
	impls  []*specFunc
	pkg    string
	line   string
}

type axiomDecl struct {
	name  string
	cl    *clause
	pkg   string
	reads []Expr // state-generic axiom: quantified over these heap pieces
}

type lemmaDecl struct {
	name   string
	params []binder
	cl     *clause
	mode   string
	pkg    string
	props  []string
	uses   []string // axioms are always available; "uses" lists lemmas assumed
}

type localAnchor struct {
	typ  string
	ord  int
	ords []int // all declarations of the name (a loop variable declared in several loops)
}

type literalCheck struct {
	pkg, name, text, line string
	prop                  string // non-empty: only checked for this property
}

type specDB struct {
	literals []literalCheck
	funcs    map[string]*funcContract
	specs    map[string]*specFunc
	axioms   []*axiomDecl
	lemmas   []*lemmaDecl
	order    []string
}

func newSpecDB() *specDB {
	return &specDB{funcs: map[string]*funcContract{}, specs: map[string]*specFunc{}}
}

var tagRe = regexp.MustCompile(`^\[([A-Za-z0-9_, ]+)\]\s*`)
var labelRe = regexp.MustCompile(`^([A-Za-z_][A-Za-z0-9_.\-]*):\s+`)

// loadSpecFile reads //@ lines of a Go contracts file, or all lines of a .spec file.
func (db *specDB) loadSpecFile(path string, pkgName string, isGo bool) error {
	b, err := os.ReadFile(path)
	if err != nil {
		return err
	}
	var lines []string
	var lnos []int
	for i, l := range strings.Split(string(b), "\n") {
		if isGo {
			t := strings.TrimSpace(l)
			if !strings.HasPrefix(t, "//@") {
				continue
			}
			l = strings.TrimPrefix(t, "//@")
		} else {
			if strings.HasPrefix(strings.TrimSpace(l), "#") {
				continue
			}
		}
		if strings.TrimSpace(l) == "" {
			continue
		}
		lines = append(lines, l)
		lnos = append(lnos, i+1)
	}
	// join continuation lines (ending in backslash)
	var jl []string
	var jn []int
	for i := 0; i < len(lines); i++ {
		l := lines[i]
		n := lnos[i]
		for strings.HasSuffix(strings.TrimRight(l, " \t"), "\\") && i+1 < len(lines) {
			l = strings.TrimSuffix(strings.TrimRight(l, " \t"), "\\") + " " + strings.TrimSpace(lines[i+1])
			i++
		}
		jl = append(jl, l)
		jn = append(jn, n)
	}
	var cur *funcContract
	var curLoop *loopContract
	base := filepath.Base(path)
	for i, l := range jl {
		where := fmt.Sprintf("%s:%d", base, jn[i])
		t := strings.TrimSpace(l)
		kw, rest := splitKW(t)
		mkClause := func(s string) (*clause, error) {
			cl := &clause{line: where}
			if m := tagRe.FindStringSubmatch(s); m != nil {
				for _, tg := range strings.Split(m[1], ",") {
					cl.tags = append(cl.tags, strings.TrimSpace(tg))
				}
				s = s[len(m[0]):]
			}
			if m := labelRe.FindStringSubmatch(s); m != nil && !strings.HasPrefix(s[len(m[0])-1:], ":") {
				cl.label = m[1]
				s = s[len(m[0]):]
			}
			cl.text = s
			e, err := parseExpr(s)
			if err != nil {
				return nil, fmt.Errorf("%s: %v in %q", where, err, s)
			}
			cl.e = e
			return cl, nil
		}
		switch kw {
		case "func", "extern":
			key := strings.TrimSpace(rest)
			var params []string
			if kw == "extern" {
				// extern key(p1, p2) (r1, r2)
				if j := strings.Index(key, " ("); j >= 0 && strings.HasSuffix(key, ")") && strings.Count(key[j:], "(") >= 1 {
					// parse trailing lists
				}
				key, params = splitExternSig(key)
			}
			if !strings.Contains(key, ".") || (strings.HasPrefix(key, "(") && !strings.Contains(key[:strings.Index(key, ")")], ".")) {
				key = pkgName + "." + key
			}
			if _, dup := db.funcs[key]; dup {
				return fmt.Errorf("%s: duplicate contract for %s", where, key)
			}
			cur = &funcContract{key: key, file: where, trusted: kw == "extern", params: params}
			curLoop = nil
			db.funcs[key] = cur
			db.order = append(db.order, key)
		case "props":
			if cur == nil {
				return fmt.Errorf("%s: props outside func", where)
			}
			cur.props = strings.Fields(strings.ReplaceAll(rest, ",", " "))
		case "mode":
			cur.mode = strings.TrimSpace(rest)
		case "option":
			// option <name>: engine switches for this function (srccopy: copies also state their facts keyed by the source element)
			if cur.options == nil {
				cur.options = map[string]bool{}
			}
			for _, o := range strings.Fields(rest) {
				cur.options[o] = true
			}
		case "local":
			// local <name> <type>#<k> : positional anchor of a local variable named in this function's contract
			f := strings.Fields(rest)
			if len(f) < 2 || !strings.Contains(f[len(f)-1], "#") {
				return fmt.Errorf("%s: local <name> <type>#<k>", where)
			}
			tk := strings.Join(f[1:], " ")
			j := strings.LastIndex(tk, "#")
			// #k or #k1,k2,...: the ordinals (among the named locals of that type) of every declaration of the name
			var ords []int
			for _, part := range strings.Split(tk[j+1:], ",") {
				k, _ := strconv.Atoi(strings.TrimSpace(part))
				ords = append(ords, k)
			}
			if cur.localAnchors == nil {
				cur.localAnchors = map[string]localAnchor{}
			}
			cur.localAnchors[f[0]] = localAnchor{typ: strings.TrimSpace(tk[:j]), ord: ords[0], ords: ords}
		case "wrap64":
			cur.wrap64 = true
		case "inline":
			cur.inline = true
		case "summary":
			cur.summary = true
		case "self":
			cur.selfVar = strings.TrimSpace(rest)
		case "pure":
			cur.pure = true
		case "fresh":
			if strings.TrimSpace(rest) == "" {
				cur.fresh = true
			} else {
				for _, part := range splitTopLevel(rest, ',') {
					cl, err := mkClause(strings.TrimSpace(part))
					if err != nil {
						return err
					}
					cur.freshExprs = append(cur.freshExprs, cl)
				}
			}
		case "realloc":
			for _, part := range splitTopLevel(rest, ',') {
				cl, err := mkClause(strings.TrimSpace(part))
				if err != nil {
					return err
				}
				cur.reallocs = append(cur.reallocs, cl)
			}
		case "dispatch":
			f := strings.Fields(rest)
			if len(f) != 2 {
				return fmt.Errorf("%s: dispatch <Interface> <ConcreteType>", where)
			}
			if cur.dispatch == nil {
				cur.dispatch = map[string]string{}
			}
			cur.dispatch[f[0]] = f[1]
		case "implements":
			cur.implements = strings.TrimSpace(rest)
			if !strings.Contains(cur.implements[strings.Index(cur.implements, ")")+1:], ".") {
				// ok
			}
			if strings.HasPrefix(cur.implements, "(") && !strings.Contains(cur.implements[:strings.Index(cur.implements, ")")], ".") {
				cur.implements = pkgName + "." + cur.implements
			}
		case "requires", "ensures", "assume-ensures", "invariant", "modifies", "decreases":
			if cur == nil {
				return fmt.Errorf("%s: clause outside func", where)
			}
			if kw == "modifies" {
				// comma separated list at top level
				for _, part := range splitTopLevel(rest, ',') {
					cl, err := mkClause(strings.TrimSpace(part))
					if err != nil {
						return err
					}
					if curLoop != nil {
						curLoop.modifies = append(curLoop.modifies, cl)
					} else {
						cur.modifies = append(cur.modifies, cl)
					}
				}
				continue
			}
			cl, err := mkClause(rest)
			if err != nil {
				return err
			}
			switch kw {
			case "requires":
				cur.requires = append(cur.requires, cl)
			case "ensures":
				cur.ensures = append(cur.ensures, cl)
			case "assume-ensures":
				cur.assumed = append(cur.assumed, cl)
			case "invariant":
				if curLoop == nil {
					return fmt.Errorf("%s: invariant outside loop", where)
				}
				curLoop.invariants = append(curLoop.invariants, cl)
			case "decreases":
				if curLoop != nil {
					curLoop.decreases = cl
				} else {
					cur.decreases = cl
				}
			}
		case "loop":
			k := strings.TrimSuffix(strings.TrimSpace(rest), ":")
			curLoop = &loopContract{key: k}
			cur.loops = append(cur.loops, curLoop)
		case "endloop":
			curLoop = nil
		case "merge":
			if curLoop == nil {
				return fmt.Errorf("%s: merge outside loop", where)
			}
			curLoop.merge = true
		case "assert", "assume", "cut", "havoc":
			// assert [tags] expr at "stmt text" #k
			j := strings.LastIndex(rest, " at ")
			if j < 0 {
				return fmt.Errorf("%s: %s needs 'at \"stmt\"'", where, kw)
			}
			cl, err := mkClause(strings.TrimSpace(rest[:j]))
			if err != nil {
				return err
			}
			at := strings.TrimSpace(rest[j+4:])
			nth := 0 // 0: every statement with that text; #k: only the k-th one in source order
			if k := strings.LastIndex(at, "#"); k > 0 && k > strings.LastIndex(at, "\"") {
				nth, _ = strconv.Atoi(strings.TrimSpace(at[k+1:]))
				at = strings.TrimSpace(at[:k])
			}
			st, err := strconv.Unquote(at)
			if err != nil {
				return fmt.Errorf("%s: bad statement string %s", where, at)
			}
			cur.ats = append(cur.ats, &atClause{kind: kw, cl: cl, stmt: normSrc(st), nth: nth})
		case "spec", "model", "opaque", "seq":
			// spec func name(params) type [= expr]   |   opaque func name(params) type reads e1, e2
			var readsTxt string
			if kw == "opaque" {
				if j := strings.LastIndex(rest, " reads "); j >= 0 {
					readsTxt = rest[j+7:]
					rest = rest[:j]
				}
			}
			sf, err := parseSpecFunc(rest, where)
			if err != nil {
				return err
			}
			sf.pkg = pkgName
			if kw == "seq" {
				sf.seq = true
			}
			if kw == "opaque" {
				sf.opaque = true
				for _, part := range splitTopLevel(readsTxt, ',') {
					if strings.TrimSpace(part) == "" {
						continue
					}
					e, err := parseExpr(strings.TrimSpace(part))
					if err != nil {
						return fmt.Errorf("%s: %v", where, err)
					}
					sf.reads = append(sf.reads, e)
				}
			}
			if kw == "model" {
				sf.model = true
			}
			if sf.isImpl {
				base := db.specs[sf.name]
				if base == nil {
					return fmt.Errorf("%s: model impl for unknown model func %s", where, sf.name)
				}
				base.impls = append(base.impls, &sf.specFunc)
			} else {
				if _, dup := db.specs[sf.name]; dup {
					return fmt.Errorf("%s: duplicate spec func %s", where, sf.name)
				}
				s := sf.specFunc
				db.specs[sf.name] = &s
			}
			cur = nil
		case "axiom":
			j := strings.Index(rest, ":")
			cl, err := mkClause(strings.TrimSpace(rest[j+1:]))
			if err != nil {
				return err
			}
			ax := &axiomDecl{pkg: pkgName}
			head := strings.TrimSpace(rest[:j])
			if k := strings.Index(head, " reads "); k >= 0 {
				for _, part := range splitTopLevel(head[k+7:], ',') {
					e, err := parseExpr(strings.TrimSpace(part))
					if err != nil {
						return fmt.Errorf("%s: %v", where, err)
					}
					ax.reads = append(ax.reads, e)
				}
				head = strings.TrimSpace(head[:k])
			}
			ax.name = head
			ax.cl = cl
			db.axioms = append(db.axioms, ax)
			cur = nil
		case "lemma":
			// lemma [tags] name(params) mode bv: expr
			lm := &lemmaDecl{pkg: pkgName, mode: "int"}
			s := strings.TrimSpace(rest)
			if m := tagRe.FindStringSubmatch(s); m != nil {
				for _, tg := range strings.Split(m[1], ",") {
					lm.props = append(lm.props, strings.TrimSpace(tg))
				}
				s = s[len(m[0]):]
			}
			j := strings.Index(s, ":")
			// find the colon that ends the header (after the closing paren of params)
			if p := strings.Index(s, ")"); p >= 0 && strings.Index(s, "(") < j {
				j = p + strings.Index(s[p:], ":")
			}
			head := strings.TrimSpace(s[:j])
			if strings.HasSuffix(head, " bv") {
				lm.mode = "bv"
				head = strings.TrimSpace(strings.TrimSuffix(head, " bv"))
			}
			if p := strings.Index(head, "("); p >= 0 {
				lm.name = strings.TrimSpace(head[:p])
				bs, err := parseBinders(head[p+1 : strings.LastIndex(head, ")")])
				if err != nil {
					return fmt.Errorf("%s: %v", where, err)
				}
				lm.params = bs
			} else {
				lm.name = head
			}
			cl, err := mkClause(strings.TrimSpace(s[j+1:]))
			if err != nil {
				return err
			}
			cl.line = where
			lm.cl = cl
			db.lemmas = append(db.lemmas, lm)
			cur = nil
		case "literal":
			// literal <pkgVar> "<source text that must occur in its initialiser>"
			r := strings.TrimSpace(rest)
			onlyFor := ""
			if strings.HasPrefix(r, "[") {
				// literal [Cxx] <var> "text": checked only when that property is being decided
				if j := strings.Index(r, "]"); j > 0 {
					onlyFor = strings.TrimSpace(r[1:j])
					r = strings.TrimSpace(r[j+1:])
				}
			}
			f := strings.SplitN(r, " ", 2)
			if len(f) != 2 {
				return fmt.Errorf("%s: literal <var> \"text\"", where)
			}
			txt, err := strconv.Unquote(strings.TrimSpace(f[1]))
			if err != nil {
				return fmt.Errorf("%s: bad literal string", where)
			}
			db.literals = append(db.literals, literalCheck{pkg: pkgName, name: f[0], text: txt, line: where, prop: onlyFor})
			cur = nil
		case "params":
			cur.params = strings.Fields(strings.ReplaceAll(rest, ",", " "))
		default:
			return fmt.Errorf("%s: unknown contract keyword %q", where, kw)
		}
	}
	return nil
}

func splitExternSig(s string) (string, []string) {
	// "encoding/binary.(bigEndian).Uint16(b)" -> key, params
	if !strings.HasSuffix(s, ")") {
		return s, nil
	}
	// find matching open paren of the last group
	depth := 0
	for i := len(s) - 1; i >= 0; i-- {
		switch s[i] {
		case ')':
			depth++
		case '(':
			depth--
			if depth == 0 {
				inner := s[i+1 : len(s)-1]
				key := strings.TrimSpace(s[:i])
				if strings.HasSuffix(key, ".") || key == "" {
					return s, nil
				}
				var ps []string
				for _, p := range strings.Split(inner, ",") {
					p = strings.TrimSpace(p)
					if p != "" {
						ps = append(ps, strings.Fields(p)[0])
					}
				}
				return key, ps
			}
		}
	}
	return s, nil
}

func splitKW(t string) (string, string) {
	i := strings.IndexAny(t, " \t")
	if i < 0 {
		return strings.TrimSuffix(t, ":"), ""
	}
	return t[:i], strings.TrimSpace(t[i+1:])
}

func splitTopLevel(s string, sep byte) []string {
	var out []string
	depth := 0
	last := 0
	inStr := false
	for i := 0; i < len(s); i++ {
		c := s[i]
		if inStr {
			if c == '\\' {
				i++
			} else if c == '"' {
				inStr = false
			}
			continue
		}
		switch c {
		case '"':
			inStr = true
		case '(', '[', '{':
			depth++
		case ')', ']', '}':
			depth--
		default:
			if c == sep && depth == 0 {
				out = append(out, s[last:i])
				last = i + 1
			}
		}
	}
	out = append(out, s[last:])
	return out
}

type parsedSpecFunc struct {
	specFunc
	isImpl bool
}

func parseSpecFunc(rest, where string) (*parsedSpecFunc, error) {
	s := strings.TrimSpace(rest)
	sf := &parsedSpecFunc{}
	sf.line = where
	if strings.HasPrefix(s, "impl ") {
		sf.isImpl = true
		s = strings.TrimSpace(s[5:])
	} else if strings.HasPrefix(s, "func ") {
		s = strings.TrimSpace(s[5:])
	} else {
		return nil, fmt.Errorf("%s: expected 'func' or 'impl'", where)
	}
	p := strings.Index(s, "(")
	if p < 0 {
		return nil, fmt.Errorf("%s: bad spec func", where)
	}
	sf.name = strings.TrimSpace(s[:p])
	// matching paren
	depth := 0
	q := -1
	for i := p; i < len(s); i++ {
		if s[i] == '(' {
			depth++
		} else if s[i] == ')' {
			depth--
			if depth == 0 {
				q = i
				break
			}
		}
	}
	if q < 0 {
		return nil, fmt.Errorf("%s: unbalanced parens", where)
	}
	bs, err := parseBinders(s[p+1 : q])
	if err != nil {
		return nil, fmt.Errorf("%s: %v", where, err)
	}
	sf.params = bs
	tail := strings.TrimSpace(s[q+1:])
	if j := indexTopLevelEq(tail); j >= 0 {
		sf.ret = strings.TrimSpace(tail[:j])
		e, err := parseExpr(strings.TrimSpace(tail[j+1:]))
		if err != nil {
			return nil, fmt.Errorf("%s: %v", where, err)
		}
		sf.body = e
	} else {
		sf.ret = tail
	}
	return sf, nil
}

func indexTopLevelEq(s string) int {
	depth := 0
	for i := 0; i < len(s); i++ {
		switch s[i] {
		case '(', '[', '{':
			depth++
		case ')', ']', '}':
			depth--
		case '=':
			if depth == 0 {
				if i+1 < len(s) && s[i+1] == '=' {
					i++
					continue
				}
				if i > 0 && (s[i-1] == '!' || s[i-1] == '<' || s[i-1] == '>' || s[i-1] == '=') {
					continue
				}
				return i
			}
		}
	}
	return -1
}

func parseBinders(s string) ([]binder, error) {
	var out []binder
	for _, part := range splitTopLevel(s, ',') {
		part = strings.TrimSpace(part)
		if part == "" {
			continue
		}
		i := strings.IndexAny(part, " \t")
		if i < 0 {
			return nil, fmt.Errorf("binder %q needs a type", part)
		}
		out = append(out, binder{Name: part[:i], Type: strings.TrimSpace(part[i+1:])})
	}
	return out, nil
}

func normSrc(s string) string {
	return strings.Join(strings.Fields(s), " ")
}

// ---- expression parser ------------------------------------------------------

type tok struct {
	t   token.Token
	lit string
	pos int
}

type parser struct {
	toks []tok
	i    int
	src  string
}

func parseExpr(src string) (Expr, error) {
	s := src
	s = strings.ReplaceAll(s, "<==>", " __iff__ ")
	s = strings.ReplaceAll(s, "==>", " __imp__ ")
	s = strings.ReplaceAll(s, "::", " __dcolon__ ")
	fset := token.NewFileSet()
	f := fset.AddFile("", fset.Base(), len(s))
	var sc scanner.Scanner
	var errs []string
	sc.Init(f, []byte(s), func(pos token.Position, msg string) { errs = append(errs, msg) }, 0)
	p := &parser{src: s}
	for {
		pos, t, lit := sc.Scan()
		if t == token.EOF {
			break
		}
		if t == token.SEMICOLON && lit == "\n" {
			continue
		}
		p.toks = append(p.toks, tok{t, lit, int(pos)})
	}
	if len(errs) > 0 {
		return nil, fmt.Errorf("scan: %s", errs[0])
	}
	e, err := p.expr(0)
	if err != nil {
		return nil, err
	}
	if p.i < len(p.toks) {
		return nil, fmt.Errorf("unexpected %q after expression", p.toks[p.i].lit+p.toks[p.i].t.String())
	}
	return e, nil
}

func (p *parser) peek() tok {
	if p.i < len(p.toks) {
		return p.toks[p.i]
	}
	return tok{t: token.EOF}
}
func (p *parser) next() tok { t := p.peek(); p.i++; return t }

func (p *parser) isIdent(name string) bool {
	t := p.peek()
	return t.t == token.IDENT && t.lit == name
}

func binPrec(t tok) (int, string) {
	if t.t == token.IDENT {
		switch t.lit {
		case "__iff__":
			return 1, "<==>"
		case "__imp__":
			return 2, "==>"
		case "in":
			return 5, "in"
		}
		return 0, ""
	}
	switch t.t {
	case token.LOR:
		return 3, "||"
	case token.LAND:
		return 4, "&&"
	case token.EQL, token.NEQ, token.LSS, token.LEQ, token.GTR, token.GEQ:
		return 5, t.t.String()
	case token.ADD, token.SUB, token.OR, token.XOR:
		return 6, t.t.String()
	case token.MUL, token.QUO, token.REM, token.SHL, token.SHR, token.AND, token.AND_NOT:
		return 7, t.t.String()
	}
	return 0, ""
}

func (p *parser) expr(minPrec int) (Expr, error) {
	// quantifier
	if p.isIdent("forall") || p.isIdent("exists") {
		fa := p.next().lit == "forall"
		var bs []binder
		for {
			nm := p.next()
			if nm.t != token.IDENT {
				return nil, fmt.Errorf("binder name expected")
			}
			// type: tokens until ',' or '__dcolon__' at depth 0
			var ty []string
			depth := 0
			for {
				t := p.peek()
				if t.t == token.EOF {
					return nil, fmt.Errorf("unterminated quantifier binder")
				}
				if depth == 0 && (t.t == token.COMMA || (t.t == token.IDENT && t.lit == "__dcolon__")) {
					break
				}
				if t.t == token.LPAREN || t.t == token.LBRACK {
					depth++
				}
				if t.t == token.RPAREN || t.t == token.RBRACK {
					depth--
				}
				if t.lit != "" {
					ty = append(ty, t.lit)
				} else {
					ty = append(ty, t.t.String())
				}
				p.next()
			}
			bs = append(bs, binder{Name: nm.lit, Type: strings.Join(ty, "")})
			if p.peek().t == token.COMMA {
				p.next()
				continue
			}
			break
		}
		if !p.isIdent("__dcolon__") {
			return nil, fmt.Errorf("'::' expected in quantifier")
		}
		p.next()
		body, err := p.expr(0)
		if err != nil {
			return nil, err
		}
		return &EQuant{Forall: fa, Vars: bs, Body: body}, nil
	}
	lhs, err := p.unary()
	if err != nil {
		return nil, err
	}
	for {
		prec, op := binPrec(p.peek())
		if prec == 0 || prec < minPrec {
			return lhs, nil
		}
		p.next()
		var rhs Expr
		if op == "==>" {
			rhs, err = p.expr(prec) // right assoc
		} else {
			rhs, err = p.expr(prec + 1)
		}
		if err != nil {
			return nil, err
		}
		lhs = &EBin{Op: op, X: lhs, Y: rhs}
	}
}

func (p *parser) unary() (Expr, error) {
	t := p.peek()
	switch t.t {
	case token.NOT, token.SUB, token.XOR, token.MUL, token.AND, token.ADD:
		p.next()
		x, err := p.unary()
		if err != nil {
			return nil, err
		}
		return &EUn{Op: t.t.String(), X: x}, nil
	}
	return p.postfix()
}

func (p *parser) postfix() (Expr, error) {
	x, err := p.primary()
	if err != nil {
		return nil, err
	}
	for {
		t := p.peek()
		switch t.t {
		case token.PERIOD:
			p.next()
			n := p.next()
			if n.t == token.LPAREN {
				// type assertion x.(T) not supported
				return nil, fmt.Errorf("type assertion not supported in contracts")
			}
			if n.t != token.IDENT {
				return nil, fmt.Errorf("selector name expected")
			}
			x = &ESel{X: x, Name: n.lit}
		case token.LPAREN:
			p.next()
			var args []Expr
			for p.peek().t != token.RPAREN {
				a, err := p.expr(0)
				if err != nil {
					return nil, err
				}
				args = append(args, a)
				if p.peek().t == token.COMMA {
					p.next()
				} else if p.peek().t != token.RPAREN {
					return nil, fmt.Errorf("',' or ')' expected in call")
				}
			}
			p.next()
			x = &ECall{Fun: x, Args: args}
		case token.LBRACK:
			p.next()
			var lo, hi Expr
			if p.peek().t != token.COLON {
				lo, err = p.expr(0)
				if err != nil {
					return nil, err
				}
			}
			if p.peek().t == token.COLON {
				p.next()
				if p.peek().t != token.RBRACK {
					hi, err = p.expr(0)
					if err != nil {
						return nil, err
					}
				}
				if p.next().t != token.RBRACK {
					return nil, fmt.Errorf("']' expected")
				}
				x = &ESlice{X: x, Lo: lo, Hi: hi}
			} else {
				if p.next().t != token.RBRACK {
					return nil, fmt.Errorf("']' expected")
				}
				x = &EIndex{X: x, I: lo}
			}
		default:
			return x, nil
		}
	}
}

func (p *parser) primary() (Expr, error) {
	t := p.next()
	switch t.t {
	case token.IDENT:
		return &EIdent{Name: t.lit}, nil
	case token.INT, token.FLOAT, token.STRING, token.CHAR:
		return &ELit{Kind: t.t, Val: t.lit}, nil
	case token.LPAREN:
		// (*T) or ([]byte) type in conversion position is handled as EType when followed by '('
		save := p.i
		if ty, ok := p.tryParenType(); ok {
			return &EType{Text: ty}, nil
		}
		p.i = save
		e, err := p.expr(0)
		if err != nil {
			return nil, err
		}
		if p.next().t != token.RPAREN {
			return nil, fmt.Errorf("')' expected")
		}
		return e, nil
	case token.LBRACK:
		// []T(x) conversion
		if p.peek().t == token.RBRACK {
			p.next()
			n := p.next()
			return &EType{Text: "[]" + n.lit}, nil
		}
	}
	return nil, fmt.Errorf("unexpected token %q", t.t.String()+t.lit)
}

// tryParenType recognises "(*T)" or "([]T)" immediately followed by "(".
func (p *parser) tryParenType() (string, bool) {
	var parts []string
	if p.peek().t == token.MUL {
		p.next()
		parts = append(parts, "*")
	} else if p.peek().t == token.LBRACK {
		p.next()
		if p.next().t != token.RBRACK {
			return "", false
		}
		parts = append(parts, "[]")
	} else {
		return "", false
	}
	for {
		t := p.next()
		if t.t == token.IDENT {
			parts = append(parts, t.lit)
		} else if t.t == token.PERIOD {
			parts = append(parts, ".")
		} else if t.t == token.RPAREN {
			break
		} else {
			return "", false
		}
	}
	if p.peek().t != token.LPAREN {
		return "", false
	}
	return strings.Join(parts, ""), true
}

func exprString(e Expr) string {
	switch e := e.(type) {
	case *EIdent:
		return e.Name
	case *ELit:
		return e.Val
	case *EBin:
		return "(" + exprString(e.X) + " " + e.Op + " " + exprString(e.Y) + ")"
	case *EUn:
		return e.Op + exprString(e.X)
	case *ECall:
		var as []string
		for _, a := range e.Args {
			as = append(as, exprString(a))
		}
		return exprString(e.Fun) + "(" + strings.Join(as, ", ") + ")"
	case *EIndex:
		return exprString(e.X) + "[" + exprString(e.I) + "]"
	case *ESlice:
		lo, hi := "", ""
		if e.Lo != nil {
			lo = exprString(e.Lo)
		}
		if e.Hi != nil {
			hi = exprString(e.Hi)
		}
		return exprString(e.X) + "[" + lo + ":" + hi + "]"
	case *ESel:
		return exprString(e.X) + "." + e.Name
	case *EQuant:
		q := "exists"
		if e.Forall {
			q = "forall"
		}
		var bs []string
		for _, b := range e.Vars {
			bs = append(bs, b.Name+" "+b.Type)
		}
		return "(" + q + " " + strings.Join(bs, ", ") + " :: " + exprString(e.Body) + ")"
	case *EType:
		return e.Text
	}
	return "?"
}
