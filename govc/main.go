package main

import (
	"encoding/json"
	"flag"
	"fmt"
	"go/scanner"
	"go/token"
	"os"
	"path/filepath"
	"sort"
	"strconv"
	"strings"
	"time"
)

type funcReport struct {
	Key         string   `json:"function"`
	Mode        string   `json:"arithmetic"`
	Paths       int      `json:"paths"`
	Obligations int      `json:"obligations"`
	Dropped     []string `json:"dropped_calls,omitempty"`
	Externs     []string `json:"trusted_external_contracts,omitempty"`
	Axioms      []string `json:"axioms_assumed,omitempty"`
	Error       string   `json:"error,omitempty"`
}

func hasTag(tags []string, p string) bool {
	for _, t := range tags {
		if t == p {
			return true
		}
	}
	return false
}

func main() {
	repo := flag.String("repo", "/repo", "repository root")
	verifDir := flag.String("verif", "/verif", "verif root")
	prop := flag.String("prop", "", "property id")
	only := flag.String("func", "", "verify only this function key (debug)")
	tier := flag.String("tier", "quick", "quick|thorough")
	timeout := flag.Int("timeout", 0, "per-obligation solver timeout (s)")
	verbose := flag.Bool("v", false, "verbose")
	dump := flag.String("dump", "", "dump queries of obligations whose name contains this string")
	noEvidence := flag.Bool("no-evidence", false, "do not write evidence")
	genAnchors := flag.Bool("gen-anchors", false, "print `local name type#k` anchor lines for the identifiers used in the contracts of the selected functions")
	extra := flag.String("extra", "", "JSON file with the result of a bounded / computed leg to merge into the evidence")
	level := flag.String("level", "proof", "evidence level (proof | other)")
	explanation := flag.String("explanation", "", "coverage.explanation for level other")
	flag.Parse()
	t0 := time.Now()
	if *timeout == 0 {
		*timeout = 30
		if *tier == "thorough" {
			*timeout = 120
		}
	}
	seed := 0
	curProp = *prop
	if s := os.Getenv("VERIF_SEED"); s != "" {
		seed, _ = strconv.Atoi(s)
	}

	if pv := os.Getenv("GOVC_PERTURB"); pv != "" {
		// robustness testing: shift the counters behind generated names
		n, _ := strconv.Atoi(pv)
		qcounter += n * 7
		freshCounter += n * 13
	}
	db := newSpecDB()
	files, _ := filepath.Glob(filepath.Join(*repo, "*", "zz_verif_contracts.go"))
	more, _ := filepath.Glob(filepath.Join(*repo, "*", "*", "zz_verif_contracts.go"))
	files = append(files, more...)
	sort.Strings(files)
	pkgDirs := map[string]string{}
	for _, f := range files {
		pn := goPackageName(f)
		rel, _ := filepath.Rel(*repo, filepath.Dir(f))
		pkgDirs[pn] = "./" + rel
		if err := db.loadSpecFile(f, pn, true); err != nil {
			fatalCheck(*prop, "contract file error: %v", err)
		}
	}
	exts, _ := filepath.Glob(filepath.Join(*verifDir, "contracts", "extern", "*.spec"))
	sort.Strings(exts)
	for _, f := range exts {
		if err := db.loadSpecFile(f, "", false); err != nil {
			fatalCheck(*prop, "extern spec error: %v", err)
		}
	}

	// functions in the property cone
	var keys []string
	for _, k := range db.order {
		fc := db.funcs[k]
		if fc.trusted || fc.inline {
			continue
		}
		if isIfaceKey(k, db) {
			continue
		}
		if *only != "" {
			if k == *only {
				keys = append(keys, k)
			}
			continue
		}
		if *prop == "" || hasTag(fc.props, *prop) || clausesTagged(fc, *prop) {
			keys = append(keys, k)
		}
	}
	if len(keys) == 0 {
		fatalCheck(*prop, "no functions under contract for property %q", *prop)
	}
	pkgSet := map[string]bool{}
	for _, k := range keys {
		pn := k[:strings.Index(k, ".")]
		if d, ok := pkgDirs[pn]; ok {
			pkgSet[d] = true
		}
	}
	var pkgPaths []string
	for d := range pkgSet {
		pkgPaths = append(pkgPaths, d)
	}
	sort.Strings(pkgPaths)
	prog, err := loadProgram(*repo, pkgPaths)
	if err != nil {
		fatalCheck(*prop, "cannot load %v: %v", pkgPaths, err)
	}
	tLoad := time.Since(t0).Seconds()
	// literal-keyed assumptions: the source text an axiom was written for must still be there
	for _, lc := range db.literals {
		if _, loaded := prog.spkgs[lc.pkg]; !loaded {
			continue
		}
		if lc.prop != "" && lc.prop != *prop {
			continue
		}
		if !prog.initialiserContains(lc.pkg, lc.name, lc.text) {
			fatalCheck(*prop, "contract-anchor: %s: initialiser of %s.%s no longer contains %q (an axiom was keyed to that literal)", lc.line, lc.pkg, lc.name, lc.text)
		}
	}

	if *genAnchors {
		for _, k := range keys {
			fn := prog.funcs[k]
			fc := db.funcs[k]
			if fn == nil {
				continue
			}
			names := map[string]bool{}
			var walk func(e Expr)
			walk = func(e Expr) {
				switch e := e.(type) {
				case *EIdent:
					names[e.Name] = true
				case *EBin:
					walk(e.X)
					walk(e.Y)
				case *EUn:
					walk(e.X)
				case *ECall:
					walk(e.Fun)
					for _, a := range e.Args {
						walk(a)
					}
				case *EIndex:
					walk(e.X)
					walk(e.I)
				case *ESlice:
					walk(e.X)
					if e.Lo != nil {
						walk(e.Lo)
					}
					if e.Hi != nil {
						walk(e.Hi)
					}
				case *ESel:
					walk(e.X)
				case *EQuant:
					walk(e.Body)
				}
			}
			var cls []*clause
			cls = append(cls, fc.requires...)
			cls = append(cls, fc.ensures...)
			cls = append(cls, fc.modifies...)
			cls = append(cls, fc.assumed...)
			if fc.decreases != nil {
				cls = append(cls, fc.decreases)
			}
			for _, l := range fc.loops {
				cls = append(cls, l.invariants...)
				cls = append(cls, l.modifies...)
				if l.decreases != nil {
					cls = append(cls, l.decreases)
				}
			}
			for _, at := range fc.ats {
				cls = append(cls, at.cl)
			}
			for _, cl := range cls {
				walk(cl.e)
			}
			// identifiers in the statement texts of `at` clauses
			for _, at := range fc.ats {
				for _, w := range identsOf(at.stmt) {
					names[w] = true
				}
			}
			locals := namedLocals(fn)
			count := map[string]int{}
			var lines []string
			for _, a := range locals {
				ts := localTypeString(a)
				count[ts]++
				if names[a.Comment] {
					// every declaration of the name is recorded (a loop variable declared in several loops): #k1,k2,...;
					// declarations of another type keep the first type's anchor only
					dup := false
					for li, l := range lines {
						if strings.HasPrefix(l, "local "+a.Comment+" ") {
							dup = true
							if strings.HasPrefix(l, fmt.Sprintf("local %s %s#", a.Comment, ts)) {
								lines[li] = fmt.Sprintf("%s,%d", l, count[ts])
							}
						}
					}
					if !dup {
						lines = append(lines, fmt.Sprintf("local %s %s#%d", a.Comment, ts, count[ts]))
					}
				}
			}
			fmt.Printf("FUNC %s\n", k)
			for _, l := range lines {
				fmt.Println(l)
			}
		}
		return
	}
	var all []*obligation
	var reports []funcReport
	var engineErrors []string
	assumptions := map[string]bool{}
	for _, k := range keys {
		x := newExecutor(prog, db)
		err := x.verify(k)
		fr := funcReport{Key: k, Mode: db.funcs[k].mode, Paths: x.paths}
		if fr.Mode == "" {
			fr.Mode = "int"
		}
		for d, n := range x.dropped {
			fr.Dropped = append(fr.Dropped, fmt.Sprintf("%s×%d", d, n))
		}
		sort.Strings(fr.Dropped)
		fr.Externs = sortedKeys(x.externs)
		fr.Axioms = sortedKeys(x.axiomsUsed)
		for a := range x.assumeNotes {
			assumptions[a] = true
		}
		if err != nil {
			fr.Error = err.Error()
			fmt.Fprintln(os.Stderr, "govc: engine error:", err)
			engineErrors = append(engineErrors, err.Error())
			// an anchoring / subset error is a failed obligation of the function
			o := &obligation{name: k + "/contract-anchor", kind: "contract-anchor", fn: k, status: "unknown", detail: err.Error(), goal: tFalse}
			all = append(all, o)
		}
		fc := db.funcs[k]
		for _, o := range x.obls {
			if *prop != "" && *only == "" {
				if len(o.tags) > 0 {
					if !hasTag(o.tags, *prop) {
						continue
					}
				} else if !hasTag(fc.props, *prop) {
					continue
				}
			}
			all = append(all, o)
			fr.Obligations++
		}
		reports = append(reports, fr)
	}
	// lemmas over contracts / spec functions
	for _, lm := range db.lemmas {
		if *only != "" || (*prop != "" && !hasTag(lm.props, *prop)) {
			continue
		}
		x := newExecutor(prog, db)
		o, err := x.verifyLemma(lm)
		if err != nil {
			fmt.Fprintln(os.Stderr, "govc: engine error:", err)
			all = append(all, &obligation{name: "lemma:" + lm.name + "/contract-anchor", kind: "contract-anchor", status: "unknown", detail: err.Error(), goal: tFalse})
			continue
		}
		all = append(all, o)
		reports = append(reports, funcReport{Key: "lemma:" + lm.name, Mode: lm.mode, Paths: 1, Obligations: 1, Axioms: sortedKeys(x.axiomsUsed)})
	}
	tGen := time.Since(t0).Seconds() - tLoad

	scratch, _ := os.MkdirTemp("", "govc-")
	defer os.RemoveAll(scratch)
	if *dump != "" {
		for i, o := range all {
			if strings.Contains(o.name, *dump) && o.goal != nil && o.c != nil {
				f := fmt.Sprintf("/tmp/dump_%d.smt2", i)
				os.WriteFile(f, []byte(renderQuery(o, true, nil)), 0o644)
				fmt.Println("dumped", o.name, "path", o.pathID, "->", f)
			}
		}
	}
	var toSolve []*obligation
	for _, o := range all {
		if o.c != nil {
			toSolve = append(toSolve, o)
		}
	}
	discharge(toSolve, scratch, *timeout, 10)
	tSolve := time.Since(t0).Seconds() - tLoad - tGen

	res := summarize(*prop, *tier, seed, all, reports, assumptions, *verifDir, *verbose)
	res.Timing = map[string]float64{"load_s": round2(tLoad), "vcgen_s": round2(tGen), "solve_s": round2(tSolve)}
	res.WallS = round2(time.Since(t0).Seconds())
	if !*noEvidence && *prop != "" && *only == "" {
		writeEvidence(res, filepath.Join(*verifDir, "evidence", *prop+".json"), *level, *explanation, *extra)
	}
	fmt.Printf("govc: property=%s functions=%d obligations=%d discharged=%d trivial=%d failed=%d known=%d  (load %.1fs, vcgen %.1fs, solve %.1fs)\n",
		*prop, len(keys), res.Obligations, res.Discharged, res.Trivial, len(res.Failed), res.KnownHits, tLoad, tGen, tSolve)
	if len(res.Failed) > 0 {
		os.Exit(1)
	}
}

func round2(f float64) float64 { return float64(int(f*100+0.5)) / 100 }

func isIfaceKey(k string, db *specDB) bool {
	// interface method contracts are referenced by `implements` or used at invoke sites; they have no body
	for _, fc := range db.funcs {
		if fc.implements == k {
			return true
		}
	}
	return db.funcs[k].pure && false
}

func clausesTagged(fc *funcContract, p string) bool {
	if p == "" {
		return true
	}
	for _, cl := range fc.ensures {
		if hasTag(cl.tags, p) {
			return true
		}
	}
	for _, l := range fc.loops {
		for _, cl := range l.invariants {
			if hasTag(cl.tags, p) {
				return true
			}
		}
	}
	return false
}

func goPackageName(file string) string {
	b, _ := os.ReadFile(file)
	for _, l := range strings.Split(string(b), "\n") {
		l = strings.TrimSpace(l)
		if strings.HasPrefix(l, "package ") {
			return strings.TrimSpace(strings.TrimPrefix(l, "package "))
		}
	}
	return filepath.Base(filepath.Dir(file))
}

// curProp: the property being checked (clauses tagged `only` are used by that property's proofs alone)
var curProp string

func fatalCheck(prop string, format string, a ...interface{}) {
	msg := fmt.Sprintf(format, a...)
	fmt.Fprintln(os.Stderr, "govc: "+msg)
	if prop != "" {
		// a broken check is reported as a violation without a failing input
		rp := filepath.Join("/verif", "replays", prop, "engine-error.json")
		os.MkdirAll(filepath.Dir(rp), 0o755)
		b, _ := json.MarshalIndent(map[string]string{"obligation": "engine/contract-anchor", "error": msg}, "", " ")
		os.WriteFile(rp, b, 0o644)
		fmt.Printf("VIOLATION property=%s replay=%s no-failing-input-found\n", prop, rp)
	}
	os.Exit(1)
}

func identsOf(src string) []string {
	fs := token.NewFileSet()
	f := fs.AddFile("", fs.Base(), len(src))
	var sc scanner.Scanner
	sc.Init(f, []byte(src), nil, 0)
	var out []string
	for {
		_, tok, lit := sc.Scan()
		if tok == token.EOF {
			break
		}
		if tok == token.IDENT {
			out = append(out, lit)
		}
	}
	return out
}
