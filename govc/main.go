package main

import (
	"fmt"
	"golang.org/x/tools/go/packages"
	"golang.org/x/tools/go/ssa"
	"golang.org/x/tools/go/ssa/ssautil"
)

func main() {
	cfg := &packages.Config{Mode: packages.LoadAllSyntax, Dir: "/repo", BuildFlags: []string{"-tags=verif"}}
	pkgs, err := packages.Load(cfg, "./modbus")
	if err != nil { panic(err) }
	prog, spkgs := ssautil.AllPackages(pkgs, ssa.NaiveForm|ssa.GlobalDebug)
	_ = prog
	for _, p := range spkgs { p.Build(); fmt.Println(p.Pkg.Path(), len(p.Members)) }
}
