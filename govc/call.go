package main

import (
	"fmt"
	"go/token"
	"go/types"
	"strings"

	"golang.org/x/tools/go/ssa"
)

// calls whose effect is dropped (arguments are still evaluated)
var droppedCalls = map[string]bool{
	"log.Println": true, "log.Printf": true, "log.Print": true,
	"fmt.Println": true, "fmt.Printf": true, "fmt.Print": true,
	"sync.(*Mutex).Lock": true, "sync.(*Mutex).Unlock": true,
	"sync.(*RWMutex).Lock": true, "sync.(*RWMutex).Unlock": true, "sync.(*RWMutex).RLock": true, "sync.(*RWMutex).RUnlock": true,
	"test.HexDump": true, "time.Sleep": true,
}

func (x *executor) call(m *machine, fr *frame, in ssa.Instruction, com *ssa.CallCommon, res ssa.Value) {
	var args []Val
	for _, a := range com.Args {
		args = append(args, x.val(m, fr, a))
	}
	fv := x.val(m, fr, com.Value)
	x.callValues(m, fr, in, com, res, fv, args)
}

func (x *executor) setResult(fr *frame, res ssa.Value, rs []Val) {
	if res == nil {
		return
	}
	if x.curState != nil {
		for i := range rs {
			if rs[i].t != nil {
				rs[i].t = x.nameIfBig(x.curState, res.Name(), rs[i].t)
			}
		}
	}
	if len(rs) == 1 {
		fr.env[res] = rs[0]
	} else if len(rs) > 1 {
		fr.env[res] = Val{tup: rs}
	}
}

func (x *executor) callValues(m *machine, fr *frame, in ssa.Instruction, com *ssa.CallCommon, res ssa.Value, fv Val, args []Val) {
	if com.IsInvoke() {
		x.invoke(m, fr, in, res, fv, com.Method, args)
		return
	}
	if b, ok := com.Value.(*ssa.Builtin); ok {
		x.builtin(m, fr, in, res, b, com, args)
		return
	}
	if fv.fn != nil {
		f := fv.fn
		if f.method != nil && f.recv != nil {
			x.invoke(m, fr, in, res, *f.recv, f.method, args)
			return
		}
		if f.fn != nil {
			x.callFunction(m, fr, in, res, f.fn, f.bindings, args)
			return
		}
	}
	if fv.t != nil {
		// abstract function value (e.g. a func-typed struct field): pure deterministic application
		sig := com.Value.Type().Underlying().(*types.Signature)
		x.abstractApply(m, fr, res, fv.t, sig, args)
		return
	}
	panic(unsupported("call of " + com.Value.String()))
}

func (x *executor) abstractApply(m *machine, fr *frame, res ssa.Value, f *T, sig *types.Signature, args []Val) {
	c := x.c
	x.note("calls through function-typed fields/values are modelled as pure deterministic functions of the function identity and the arguments")
	var rs []Val
	for i := 0; i < sig.Results().Len(); i++ {
		rt := sig.Results().At(i).Type()
		sorts := []string{"Int"}
		ts := []*T{f}
		for _, a := range args {
			t := c.termOf(a)
			sorts = append(sorts, t.sort)
			ts = append(ts, t)
		}
		name := fmt.Sprintf("applyfn_%s_%d", sanitize(typeKey(sig)), i)
		c.d.fun(name, sorts, c.sortOf(rt))
		rs = append(rs, Val{t: app(name, c.sortOf(rt), ts...), typ: rt})
	}
	x.setResult(fr, res, rs)
}

func (x *executor) callFunction(m *machine, fr *frame, in ssa.Instruction, res ssa.Value, fn *ssa.Function, bindings []Val, args []Val) {
	key := x.prog.funcKey(fn)
	// synthetic wrappers
	if fn.Synthetic != "" && fn.Parent() == nil {
		if strings.HasPrefix(fn.Synthetic, "bound method wrapper") {
			recv := bindings[0]
			obj := fn.Object().(*types.Func)
			if _, isIface := recv.typ.Underlying().(*types.Interface); isIface {
				x.invoke(m, fr, in, res, recv, obj, args)
				return
			}
			target := x.prog.prog.FuncValue(obj)
			x.callFunction(m, fr, in, res, target, nil, append([]Val{recv}, args...))
			return
		}
		if strings.HasPrefix(fn.Synthetic, "wrapper for") || strings.HasPrefix(fn.Synthetic, "thunk") {
			// inline the wrapper body
			x.inline(m, fr, res, fn, key, bindings, args)
			return
		}
	}
	if key == "log.Fatal" || key == "log.Fatalf" || key == "log.Fatalln" || key == "os.Exit" {
		x.note("paths ending in " + key + " (process exit) are not continued and carry no postcondition")
		x.endPath()
	}
	if droppedCalls[key] {
		x.dropped[key]++
		x.setResult(fr, res, x.zeroResults(fn.Signature))
		return
	}
	if x.intrinsic(m, fr, in, res, key, fn, args) {
		return
	}
	if fn.Parent() != nil {
		if cfc := x.specs.funcs[key]; cfc != nil && cfc.summary {
			// closure with a summary contract: the captured variables are extra (by-reference) parameters
			var names []string
			for _, p := range fn.Params {
				names = append(names, p.Name())
			}
			all := append([]Val{}, args...)
			for i, fv := range fn.FreeVars {
				names = append(names, fv.Name())
				b := bindings[i]
				if b.ptr == nil {
					panic(unsupported("closure binding of " + key + " is not a pointer"))
				}
				cv := x.c.load(m.st, b.ptr)
				if cv.t == nil && cv.fn == nil {
					panic(unsupported("captured variable " + fv.Name() + " of " + key + " holds an executor-level value"))
				}
				all = append(all, cv)
			}
			x.applyContract(m, fr, in, res, cfc, key, names, all, fn.Signature, fn == x.fn)
			return
		}
		x.inline(m, fr, res, fn, key, bindings, args)
		return
	}
	fc := x.specs.funcs[key]
	if fc == nil {
		panic(unsupported("call to " + key + " which has no contract"))
	}
	if fc.inline {
		if len(fn.Blocks) == 0 {
			panic(unsupported("cannot inline " + key + ": no body"))
		}
		x.inline(m, fr, res, fn, key, bindings, args)
		return
	}
	var names []string
	if len(fc.params) > 0 {
		names = fc.params
	} else {
		for _, p := range fn.Params {
			names = append(names, p.Name())
		}
	}
	x.applyContract(m, fr, in, res, fc, key, names, args, fn.Signature, fn == x.fn)
}

func (x *executor) zeroResults(sig *types.Signature) []Val {
	var rs []Val
	for i := 0; i < sig.Results().Len(); i++ {
		t := sig.Results().At(i).Type()
		rs = append(rs, Val{t: x.c.zero(t), typ: t})
	}
	return rs
}

func (x *executor) inline(m *machine, fr *frame, res ssa.Value, fn *ssa.Function, key string, bindings []Val, args []Val) {
	if len(m.stack) > 30 {
		panic(unsupported("inline depth exceeded at " + key))
	}
	for _, f := range m.stack {
		if f.fn == fn {
			panic(unsupported("recursive inlining of " + key))
		}
	}
	nf := x.newFrame(fn, key)
	nf.retTo = res
	for i, p := range fn.Params {
		nf.env[p] = args[i]
	}
	for i, fv := range fn.FreeVars {
		nf.env[fv] = bindings[i]
	}
	nf.bindings = bindings
	m.stack = append(m.stack, nf)
}

// invoke: call through an interface
func (x *executor) invoke(m *machine, fr *frame, in ssa.Instruction, res ssa.Value, recv Val, method *types.Func, args []Val) {
	c := x.c
	sig := method.Type().(*types.Signature)
	// error.Error()
	if method.Name() == "Error" && method.Pkg() == nil {
		c.d.fun("errorString", []string{"Iface"}, "Str")
		x.setResult(fr, res, []Val{{t: app("errorString", "Str", c.termOf(recv)), typ: types.Typ[types.String]}})
		return
	}
	// devirtualisation requested by the contract of the function under verification
	if x.fc != nil && x.fc.dispatch != nil {
		if conc, ok := x.fc.dispatch[typeKeyShort(recv.typ)]; ok {
			ev := &evaluator{x: x, st: m.st, pkg: x.pkg, where: x.fc.file}
			ct := ev.resolveType(conc)
			ctor := c.ifaceCtor(ct)
			x.oblige(m, "call-pre", x.instrName(fr, in, "call-pre")+".dispatch", mkIs(ctor, c.termOf(recv)), nil, "dynamic type of the receiver is "+conc)
			m.st.assume(mkIs(ctor, c.termOf(recv)))
			rv := Val{t: mkSel(ctor, 0, c.termOf(recv)), typ: ct}
			ms := x.prog.prog.MethodSets.MethodSet(ct)
			sel := ms.Lookup(method.Pkg(), method.Name())
			if sel == nil {
				panic(unsupported("dispatch: " + conc + " has no method " + method.Name()))
			}
			target := x.prog.prog.MethodValue(sel)
			x.callFunction(m, fr, in, res, target, nil, append([]Val{rv}, args...))
			return
		}
	}
	rt := sig.Recv().Type()
	key := ""
	if k0 := x.ifaceMethodKey(recv.typ, method); x.specs.funcs[k0] != nil {
		key = k0
	} else if n, ok := rt.(*types.Named); ok {
		pn := n.Obj().Pkg().Name()
		if !strings.HasPrefix(n.Obj().Pkg().Path(), repoModule) {
			pn = n.Obj().Pkg().Path()
		}
		key = pn + ".(" + n.Obj().Name() + ")." + method.Name()
	} else {
		// method of an embedded/anonymous interface: find the named interface through the static type
		key = x.ifaceMethodKey(recv.typ, method)
	}
	fc := x.specs.funcs[key]
	if fc == nil {
		// try the static interface type of the receiver value
		k2 := x.ifaceMethodKey(recv.typ, method)
		if fc = x.specs.funcs[k2]; fc != nil {
			key = k2
		}
	}
	if fc == nil {
		panic(unsupported("interface method " + key + " has no contract"))
	}
	names := fc.params
	if len(names) == 0 {
		names = []string{"self"}
		for i := 0; i < sig.Params().Len(); i++ {
			names = append(names, sig.Params().At(i).Name())
		}
	}
	x.applyContract(m, fr, in, res, fc, key, names, append([]Val{recv}, args...), sig, false)
}

func (x *executor) ifaceMethodKey(t types.Type, method *types.Func) string {
	if n, ok := t.(*types.Named); ok {
		pn := n.Obj().Pkg().Name()
		if !strings.HasPrefix(n.Obj().Pkg().Path(), repoModule) {
			pn = n.Obj().Pkg().Path()
		}
		return pn + ".(" + n.Obj().Name() + ")." + method.Name()
	}
	return "(" + t.String() + ")." + method.Name()
}

// applyContract: assert requires, havoc modifies, assume ensures
func (x *executor) applyContract(m *machine, fr *frame, in ssa.Instruction, res ssa.Value, fc *funcContract, key string, names []string, args []Val, sig *types.Signature, recursive bool) {
	c := x.c
	st := m.st
	vars := map[string]Val{}
	for i, n := range names {
		if i < len(args) {
			vars[n] = args[i]
			vars[n+"0"] = args[i]
		}
	}
	// a parameter of the callee that was renamed since its contract was written: the contract's name is an alias of
	// the parameter its `local name type#k` anchor points to
	if calleeFn := x.prog.funcs[key]; calleeFn != nil && fc.localAnchors != nil {
		locals := namedLocals(calleeFn)
		declared := map[string]bool{}
		for _, a := range locals {
			declared[a.Comment] = true
		}
		for oldName, an := range fc.localAnchors {
			if _, have := vars[oldName]; have || declared[oldName] {
				continue
			}
			k := 0
			for _, a := range locals {
				if localTypeString(a) == an.typ {
					k++
					if k == an.ord {
						if v, ok := vars[a.Comment]; ok {
							vars[oldName] = v
							vars[oldName+"0"] = v
						}
					}
				}
			}
		}
	}
	calleePkg := x.pkgForKey(key)
	ev := &evaluator{x: x, st: st, old: nil, vars: vars, pkg: calleePkg, where: fc.file}
	cname := x.instrName(fr, in, "call-pre")
	for i, cl := range fc.requires {
		ev.where = cl.line
		g := ev.evalBool(cl.e)
		x.oblige(m, "call-pre", fmt.Sprintf("%s.%s", cname, clauseName(cl, i)), g, cl.tags, key+" requires "+cl.text)
		st.assume(g)
	}
	if recursive && x.recursionMeasure != nil && fc.decreases != nil {
		ev.where = fc.decreases.line
		mnow := ev.toInt(ev.eval(fc.decreases.e))
		intT := types.Typ[types.Int]
		x.oblige(m, "decreases", cname, mkAnd(c.cmp(token.LSS, mnow, x.recursionMeasure, intT), c.cmp(token.GEQ, x.recursionMeasure, c.I(0), intT)), nil, "recursive call decreases "+fc.decreases.text)
	} else if recursive && fc.options["partial"] {
		// `option partial`: the recursion is verified for partial correctness only (termination is an assumption)
		x.note("termination of the recursion of " + key + " is NOT proved (option partial)")
	} else if recursive {
		x.oblige(m, "decreases", cname, tFalse, nil, "recursive call needs a decreases clause")
	}
	pre := st.clone()
	// havoc: all targets are evaluated in the pre-state first
	var targets []modTarget
	for _, cl := range fc.modifies {
		ev.where = cl.line
		targets = append(targets, x.modTargetsOf(ev, cl.e)...)
	}
	for _, mt := range targets {
		if mt.iface != "" {
			x.refreshToken(st, mt.iface)
			continue
		}
		if mt.cell != nil {
			continue
		}
		// the caller must itself be allowed to modify it
		x.checkFrameRef(m, fr, in, mt.heap, mt.sort, mt.ref)
	}
	for _, mt := range targets {
		if mt.iface == "" {
			x.havocTarget(st, mt)
		}
	}
	// results
	var rs []Val
	for i := 0; i < sig.Results().Len(); i++ {
		rt := sig.Results().At(i).Type()
		var v Val
		if _, isSig := rt.Underlying().(*types.Signature); isSig {
			v = Val{t: c.d.fresh("ret_"+key, "Int"), typ: rt}
		} else {
			t := c.d.fresh("ret_"+key, c.sortOf(rt))
			st.assume(x.valueWF(t, rt))
			v = Val{t: t, typ: rt}
			if fc.fresh {
				if _, isSl := rt.Underlying().(*types.Slice); isSl {
					ref := c.freshRef(st)
					st.assume(mkEq(c.slRef(t), ref))
				}
			}
		}
		rs = append(rs, v)
	}
	// a callee whose contract speaks about what it allocated (allocd): its allocations lie between the caller's
	// allocation pointer before the call and an unknown lower pointer after it, from which the caller goes on
	usesAllocd := false
	for _, cl := range fc.ensures {
		if strings.Contains(cl.text, "allocd(") {
			usesAllocd = true
		}
	}
	if usesAllocd {
		nl := c.d.fresh("lowc", "Int")
		st.assume(app("<=", "Bool", nl, pre.lowRef()))
		st.low = nl
	}
	ev2 := &evaluator{x: x, st: st, old: pre, vars: map[string]Val{}, pkg: calleePkg, where: fc.file}
	for k, v := range vars {
		ev2.vars[k] = v
	}
	for i := 0; i < sig.Results().Len(); i++ {
		r := sig.Results().At(i)
		if r.Name() != "" && r.Name() != "_" {
			ev2.vars[r.Name()] = rs[i]
		}
		ev2.vars[fmt.Sprintf("res%d", i)] = rs[i]
		if i == sig.Results().Len()-1 && types.Identical(r.Type(), types.Universe.Lookup("error").Type()) && r.Name() == "" {
			if _, isParam := vars["err"]; !isParam {
				ev2.vars["err"] = rs[i]
			}
		}
	}
	for i, rn := range fc.results {
		if i < len(rs) {
			ev2.vars[rn] = rs[i]
		}
	}
	if len(rs) == 1 {
		ev2.vars["result"] = rs[0]
	}
	for _, cl := range fc.freshExprs {
		ev2.where = cl.line
		v := ev2.eval(cl.e)
		switch v.typ.Underlying().(type) {
		case *types.Slice:
			st.assume(mkEq(c.slRef(v.t), c.freshRef(st)))
		case *types.Pointer:
			// a freshly allocated object, or nil
			st.assume(mkOr(mkEq(ev2.term(v), refConst(0)), mkEq(ev2.term(v), c.freshRef(st))))
		default:
			ev2.fail("fresh target must be a slice or a pointer")
		}
	}
	for _, cl := range fc.reallocs {
		ev2.where = cl.line
		nv := ev2.eval(cl.e)
		evOld := *ev2
		evOld.st = pre
		ov := evOld.eval(cl.e)
		st.assume(mkOr(mkEq(c.slRef(nv.t), c.slRef(ov.t)), mkEq(c.slRef(nv.t), c.freshRef(st))))
	}
	for _, cl := range fc.ensures {
		if hasTag(cl.tags, "only") && curProp != "" && !hasTag(cl.tags, curProp) {
			// `ensures [Cxx only] e`: a postcondition that only the proofs of property Cxx use (kept out of the
			// other properties' queries; dropping an assumption is always sound)
			continue
		}
		ev2.where = cl.line
		st.assume(ev2.evalBool(cl.e))
	}
	for _, cl := range fc.assumed {
		ev2.where = cl.line
		st.assume(ev2.evalBool(cl.e))
		x.note("assumed (not checked on the body) postcondition of " + key + ": " + cl.text)
	}
	if fc.trusted {
		x.externs[key] = true
	}
	x.setResult(fr, res, rs)
}

func typeKeyShort(t types.Type) string {
	if n, ok := t.(*types.Named); ok {
		return n.Obj().Name()
	}
	return typeKey(t)
}

func (x *executor) pkgForKey(key string) *types.Package {
	// key = pkg.Func or pkg.(T).M ; pkg is a repo package name or an import path
	i := strings.Index(key, ".(")
	pn := ""
	if i >= 0 {
		pn = key[:i]
	} else {
		j := strings.LastIndex(key, ".")
		pn = key[:j]
	}
	if sp, ok := x.prog.spkgs[pn]; ok {
		return sp.Pkg
	}
	for _, sp := range x.prog.prog.AllPackages() {
		if sp.Pkg.Path() == pn {
			return sp.Pkg
		}
	}
	return x.pkg
}

// ---- abstract state tokens ---------------------------------------------------

func tokenKey(key string) string {
	key = strings.TrimPrefix(key, "*")
	if i := strings.LastIndex(key, "."); i >= 0 {
		key = key[i+1:]
	}
	return key
}

func (x *executor) tokenOf(st *state, key string) *T {
	key = tokenKey(key)
	if t, ok := st.tokens[key]; ok {
		return t
	}
	t := x.c.d.constant("tok0_"+sanitize(key), "Int")
	st.tokens[key] = t
	return t
}

func (x *executor) refreshToken(st *state, key string) {
	key = tokenKey(key)
	st.tokens[key] = x.c.d.fresh("tok_"+key, "Int")
}

// ---- builtins ------------------------------------------------------------------

func (x *executor) builtin(m *machine, fr *frame, in ssa.Instruction, res ssa.Value, b *ssa.Builtin, com *ssa.CallCommon, args []Val) {
	c := x.c
	st := m.st
	intT := types.Typ[types.Int]
	switch b.Name() {
	case "len", "cap":
		v := args[0]
		var r *T
		switch u := com.Args[0].Type().Underlying().(type) {
		case *types.Slice:
			if b.Name() == "len" {
				r = c.slLen(v.t)
			} else {
				r = c.slCap(v.t)
			}
		case *types.Basic:
			r = app("slen", c.intSort(), v.t)
		case *types.Array:
			r = c.I(u.Len())
		case *types.Pointer:
			r = c.I(u.Elem().Underlying().(*types.Array).Len())
		case *types.Map:
			r = x.mapLen(st, v)
		default:
			panic(unsupported("len of " + com.Args[0].Type().String()))
		}
		x.setResult(fr, res, []Val{{t: r, typ: intT}})
	case "append":
		x.appendBuiltin(m, fr, in, res, com, args)
	case "copy":
		dst, src := args[0], args[1]
		var et types.Type = types.Typ[types.Uint8]
		if sl, ok := com.Args[0].Type().Underlying().(*types.Slice); ok {
			et = sl.Elem()
		}
		srcT := src.t
		if isString(com.Args[1].Type()) {
			srcT = x.stringToBytes(st, src.t)
		}
		n := mkIte(c.cmp(token.LSS, c.slLen(dst.t), c.slLen(srcT), intT), c.slLen(dst.t), c.slLen(srcT))
		n = c.name(st, "copyn", n)
		x.checkFrameRefGuard(m, fr, in, c.cmp(token.GTR, n, c.I(0), intT), false, heapKey(et), c.slRef(dst.t))
		x.copyRange(st, et, dst.t, c.I(0), srcT, c.I(0), n)
		x.setResult(fr, res, []Val{{t: n, typ: intT}})
	case "print", "println":
	case "ssa:deferstack":
		x.setResult(fr, res, []Val{{t: refConst(0), typ: types.Typ[types.UnsafePointer]}})
	case "close":
		// closing a channel: opaque
	case "delete":
		x.mapDelete(m, fr, in, args[0], args[1], com.Args[0].Type())
	case "min", "max":
		a, bb := args[0], args[1]
		t := com.Args[0].Type()
		op := token.LSS
		if b.Name() == "max" {
			op = token.GTR
		}
		x.setResult(fr, res, []Val{{t: mkIte(c.cmp(op, a.t, bb.t, t), a.t, bb.t), typ: t}})
	case "recover":
		x.setResult(fr, res, []Val{{t: atom("i-nil", "Iface"), typ: types.NewInterfaceType(nil, nil)}})
	default:
		panic(unsupported("builtin " + b.Name()))
	}
}

// copyRange: dst[dlo+k] = src[slo+k] for 0 <= k < n (src read from the pre-state)
func (x *executor) copyRange(st *state, et types.Type, dst, dlo, src, slo, n *T) {
	c := x.c
	intT := types.Typ[types.Int]
	es := c.sortOf(et)
	a := c.arrOf(st, et)
	srcArr := mkSelect(a, c.slRef(src))
	dstArr := mkSelect(a, c.slRef(dst))
	if v, ok := numeralValue(n); ok && v.IsInt64() && v.Int64() <= 8 {
		na := dstArr
		for k := int64(0); k < v.Int64(); k++ {
			di := c.ix(c.slOff(dst), c.arith(token.ADD, dlo, c.I(k), intT, nil))
			si := c.ix(c.slOff(src), c.arith(token.ADD, slo, c.I(k), intT, nil))
			na = mkStore(na, di, mkSelect(srcArr, si))
		}
		c.setArr(st, et, mkStore(a, c.slRef(dst), na))
		return
	}
	na := c.freshArr("cp_"+heapKey(et), et)
	qcounter++
	k := atom(fmt.Sprintf("k!%d", qcounter), c.intSort())
	// copied range: forall j in [0,n): na[doff+dlo+j] == src[soff+slo+j]
	inN := mkAnd(c.cmp(token.LEQ, c.I(0), k, intT), c.cmp(token.LSS, k, n, intT))
	di := c.ix(c.slOff(dst), c.arith(token.ADD, dlo, k, intT, nil))
	si := c.ix(c.slOff(src), c.arith(token.ADD, slo, k, intT, nil))
	st.assume(app(fmt.Sprintf("forall ((%s %s))", k.op, k.sort), "Bool", mkImp(inN, mkEq(app("select", es, na, di), app("select", es, srcArr, si)))))
	// everything outside the copied range is unchanged (absolute index p)
	qcounter++
	p := atom(fmt.Sprintf("p!%d", qcounter), c.intSort())
	dbase := c.arith(token.ADD, c.slOff(dst), dlo, intT, nil)
	inR := mkAnd(c.cmp(token.LEQ, dbase, p, intT), c.cmp(token.LSS, p, c.arith(token.ADD, dbase, n, intT, nil), intT))
	st.assume(app(fmt.Sprintf("forall ((%s %s))", p.op, p.sort), "Bool", mkImp(mkNot(inR), mkEq(app("select", es, na, p), app("select", es, dstArr, p)))))
	// the copied range once more over the absolute index (trigger without arithmetic): na[p] == src[p - dbase + sbase]
	qcounter++
	p2 := atom(fmt.Sprintf("p!%d", qcounter), c.intSort())
	inR2 := mkAnd(c.cmp(token.LEQ, dbase, p2, intT), c.cmp(token.LSS, p2, c.arith(token.ADD, dbase, n, intT, nil), intT))
	sidx := c.ix(c.slOff(src), c.arith(token.ADD, slo, c.arith(token.SUB, p2, dbase, intT, nil), intT, nil))
	body2 := mkImp(inR2, mkEq(app("select", es, na, p2), app("select", es, srcArr, sidx)))
	st.assume(app(fmt.Sprintf("forall ((%s %s))", p2.op, p2.sort), "Bool", &T{op: "!", args: []*T{body2, atom(":pattern ((select "+na.String()+" "+p2.op+"))", "Attr")}, sort: "Bool"}))
	if x.fc != nil && x.fc.options["srccopy"] {
		// the copied range once more, keyed by the source index term: instantiating it for a source element that is
		// mentioned elsewhere produces the destination index term (a witness for "the element is in the destination")
		if v, ok := numeralValue(slo); ok && v.Sign() == 0 {
			qcounter++
			q := atom(fmt.Sprintf("q!%d", qcounter), c.intSort())
			inQ := mkAnd(c.cmp(token.LEQ, c.I(0), q, intT), c.cmp(token.LSS, q, n, intT))
			dq := c.ix(c.slOff(dst), c.arith(token.ADD, dlo, q, intT, nil))
			sq := c.ix(c.slOff(src), q)
			body3 := mkImp(inQ, mkEq(app("select", es, na, dq), app("select", es, srcArr, sq)))
			st.assume(app(fmt.Sprintf("forall ((%s %s))", q.op, q.sort), "Bool", &T{op: "!", args: []*T{body3, atom(":pattern ("+sq.String()+")", "Attr")}, sort: "Bool"}))
		}
	}
	c.setArr(st, et, mkStore(a, c.slRef(dst), na))
}

func (x *executor) checkFrameRefGuard(m *machine, fr *frame, in ssa.Instruction, guard *T, heap bool, sort string, ref *T) {
	if isFalse(guard) {
		return
	}
	save := m.st.pc
	m.st.pc = append(m.st.pc[:len(m.st.pc):len(m.st.pc)], guard)
	x.checkFrameRef(m, fr, in, heap, sort, ref)
	m.st.pc = save
}

func (x *executor) appendBuiltin(m *machine, fr *frame, in ssa.Instruction, res ssa.Value, com *ssa.CallCommon, args []Val) {
	c := x.c
	st := m.st
	intT := types.Typ[types.Int]
	s, t := args[0], args[1]
	sl := com.Args[0].Type().Underlying().(*types.Slice)
	et := sl.Elem()
	_ = c.sortOf(et)
	tT := t.t
	if isString(com.Args[1].Type()) {
		tT = x.stringToBytes(st, t.t)
	}
	n := c.slLen(tT)
	newLen := c.arith(token.ADD, c.slLen(s.t), n, intT, nil)
	fits := c.cmp(token.LEQ, newLen, c.slCap(s.t), intT)
	fresh := c.freshRef(st)
	// in-place writes need frame permission
	x.checkFrameRefGuard(m, fr, in, mkAnd(fits, c.cmp(token.GTR, n, c.I(0), intT)), false, heapKey(et), c.slRef(s.t))
	newRef := mkIte(fits, c.slRef(s.t), fresh)
	newCap := c.d.fresh("cap", c.intSort())
	st.assume(mkAnd(c.cmp(token.LEQ, newLen, newCap, intT), c.cmp(token.LEQ, newCap, c.I(1<<62), intT)))
	capT := mkIte(fits, c.slCap(s.t), newCap)
	// contents: old array of s with t's elements stored at off+len..; written at newRef
	a := c.arrOf(st, et)
	oldArr := mkSelect(a, c.slRef(s.t))
	// build updated array relative to s's offset
	tmp := c.mkSlice(c.slRef(s.t), c.slOff(s.t), newLen, capT)
	// temporarily: compute new contents via copyRange on a scratch ref equal to newRef
	// First place old contents at newRef, then copy t into position.
	c.setArr(st, et, mkStore(a, newRef, oldArr))
	dst := c.mkSlice(newRef, c.slOff(s.t), newLen, capT)
	_ = tmp
	x.copyRange(st, et, dst, c.slLen(s.t), tT, c.I(0), n)
	r := c.name(st, "app", dst)
	x.setResult(fr, res, []Val{{t: r, typ: com.Args[0].Type()}})
}
