package main

import (
	"fmt"
	"go/constant"
	"go/token"
	"go/types"
	"golang.org/x/tools/go/ssa"
	"math/big"
	"sort"
	"strconv"
	"strings"
)

// evaluator turns contract expressions into SMT terms in a given state.
type evaluator struct {
	x             *executor
	st            *state
	old           *state
	vars          map[string]Val
	frame         *frame
	pos           token.Pos
	pkg           *types.Package
	depth         int
	where         string     // clause location for error messages
	implFor       types.Type // when verifying an implementation of an interface contract
	preloop       *state     // state just before the enclosing loop's havoc (preloop(e))
	currentParams bool       // parameter names denote the current value of the parameter variable (body clauses)
	before        *state     // state before a `havoc ... at` clause of the current statement (before(e))
	loopMark      *T
	localsSt      *state // state in which local variables are read (old()/preloop() only switch the heap)
	inLoop        bool
}

type evalErr struct{ msg string }

func (e evalErr) Error() string { return e.msg }

func (ev *evaluator) fail(format string, a ...interface{}) {
	panic(evalErr{fmt.Sprintf("%s: ", ev.where) + fmt.Sprintf(format, a...)})
}

func (ev *evaluator) c() *ctx { return ev.x.c }

func (ev *evaluator) with(st *state) *evaluator {
	n := *ev
	n.st = st
	return &n
}

func (ev *evaluator) bind(name string, v Val) *evaluator {
	n := *ev
	n.vars = make(map[string]Val, len(ev.vars)+1)
	for k, x := range ev.vars {
		n.vars[k] = x
	}
	n.vars[name] = v
	return &n
}

// evalBool evaluates to a Bool term
func (ev *evaluator) evalBool(x Expr) *T {
	v := ev.eval(x)
	if v.t == nil || v.t.sort != "Bool" {
		ev.fail("expression %s is not boolean", exprString(x))
	}
	return v.t
}

func (ev *evaluator) resolveType(text string) types.Type {
	text = strings.TrimSpace(text)
	switch text {
	case "byte":
		return types.Typ[types.Uint8]
	case "Iface", "any":
		return types.NewInterfaceType(nil, nil)
	}
	if tv, err := types.Eval(ev.x.prog.fset, ev.pkg, token.NoPos, text); err == nil && tv.IsType() {
		return tv.Type
	}
	// package qualified by name among imports of loaded packages
	if i := strings.LastIndex(text, "."); i > 0 {
		prefix := ""
		rest := text
		for strings.HasPrefix(rest, "*") || strings.HasPrefix(rest, "[]") {
			if rest[0] == '*' {
				prefix += "*"
				rest = rest[1:]
			} else {
				prefix += "[]"
				rest = rest[2:]
			}
		}
		i = strings.LastIndex(rest, ".")
		pn, tn := rest[:i], rest[i+1:]
		for _, sp := range ev.x.prog.prog.AllPackages() {
			if sp.Pkg.Name() == pn || sp.Pkg.Path() == pn {
				if o := sp.Pkg.Scope().Lookup(tn); o != nil {
					if _, ok := o.(*types.TypeName); ok {
						var t types.Type = o.Type()
						for j := len(prefix); j > 0; {
							if strings.HasSuffix(prefix[:j], "[]") {
								t = types.NewSlice(t)
								j -= 2
							} else {
								t = types.NewPointer(t)
								j--
							}
						}
						return t
					}
				}
			}
		}
	}
	ev.fail("cannot resolve type %q", text)
	return nil
}

func (ev *evaluator) typed(v Val, t types.Type) Val {
	// give an untyped constant the type t
	if v.konst != nil && v.t == nil {
		if t == nil {
			t = types.Typ[types.Int]
			if v.konst.Kind() == constant.Float {
				t = types.Typ[types.Float64]
			}
			if v.konst.Kind() == constant.String {
				t = types.Typ[types.String]
			}
		}
		if _, ok := isFloat(t); !ok {
			if _, _, ok2 := intInfo(t); !ok2 && !isString(t) && !isBool(t) {
				ev.fail("constant %v used as %s", v.konst, t)
			}
		}
		return Val{t: ev.c().constTerm(v.konst, t), typ: t}
	}
	return v
}

func (ev *evaluator) term(v Val) *T {
	v = ev.typed(v, nil)
	if v.t == nil && v.ptr != nil {
		return ev.c().termOf(v)
	}
	if v.t == nil {
		ev.fail("value has no term")
	}
	return v.t
}

func (ev *evaluator) eval(x Expr) Val {
	c := ev.c()
	switch x := x.(type) {
	case *ELit:
		switch x.Kind {
		case token.INT:
			return Val{konst: constant.MakeFromLiteral(x.Val, token.INT, 0)}
		case token.FLOAT:
			return Val{konst: constant.MakeFromLiteral(x.Val, token.FLOAT, 0)}
		case token.CHAR:
			return Val{konst: constant.MakeFromLiteral(x.Val, token.CHAR, 0)}
		case token.STRING:
			s, err := strconv.Unquote(x.Val)
			if err != nil {
				ev.fail("bad string literal %s", x.Val)
			}
			return Val{t: c.strLit(s), typ: types.Typ[types.String]}
		}
	case *EIdent:
		return ev.ident(x.Name)
	case *EUn:
		return ev.unary(x)
	case *EBin:
		return ev.binary(x)
	case *ESel:
		return ev.selector(x)
	case *EIndex:
		return ev.index(x)
	case *ESlice:
		return ev.sliceExpr(x)
	case *ECall:
		return ev.call(x)
	case *EQuant:
		return ev.quant(x)
	}
	ev.fail("cannot evaluate %s", exprString(x))
	return Val{}
}

func (ev *evaluator) ident(name string) Val {
	c := ev.c()
	if ev.currentParams && ev.frame != nil && ev.x.fn != nil {
		for _, p := range ev.x.fn.Params {
			if p.Name() != name {
				continue
			}
			// the alloc the parameter was copied into (naive form): find it through its initialising store
			if refs := p.Referrers(); refs != nil {
				for _, r := range *refs {
					if st, ok := r.(*ssa.Store); ok && st.Val == p {
						if a, ok := st.Addr.(*ssa.Alloc); ok {
							if cell := ev.frame.cells[a]; cell != nil {
								lst := ev.st
								if ev.localsSt != nil {
									lst = ev.localsSt
								}
								if v, ok := lst.cells[cell]; ok {
									return v
								}
							}
						}
					}
				}
			}
		}
	}
	if v, ok := ev.vars[name]; ok {
		return v
	}
	switch name {
	case "true":
		return Val{t: tTrue, typ: types.Typ[types.Bool]}
	case "false":
		return Val{t: tFalse, typ: types.Typ[types.Bool]}
	case "nil":
		return Val{typ: types.Typ[types.UntypedNil], t: refConst(0)}
	}
	// local variable by name (loop invariants / at clauses)
	if ev.frame != nil {
		lst := ev.st
		if ev.localsSt != nil {
			lst = ev.localsSt
		}
		if cell := ev.frame.lookupLocal(name, ev.pos); cell != nil {
			v, ok := lst.cells[cell]
			if !ok {
				ev.fail("local %s is not initialised at this point", name)
			}
			return v
		}
		if p := ev.frame.lookupHeapLocal(name, ev.pos); p != nil {
			return ev.c().load(ev.st, p)
		}
	}
	// ghost variable
	if g, ok := ev.st.ghost[name]; ok {
		return Val{t: g, typ: ev.x.ghostTypes[name]}
	}
	// package-level object
	if ev.pkg != nil {
		if o := ev.pkg.Scope().Lookup(name); o != nil {
			return ev.object(o)
		}
	}
	if o := types.Universe.Lookup(name); o != nil {
		if cn, ok := o.(*types.Const); ok {
			return Val{konst: cn.Val()}
		}
	}
	_ = c
	// a renamed parameter: resolve through its positional anchor
	if ev.x.fc != nil && ev.x.fn != nil && ev.x.fc.localAnchors != nil {
		if an, ok := ev.x.fc.localAnchors[name]; ok {
			k := 0
			for _, a := range namedLocals(ev.x.fn) {
				if localTypeString(a) == an.typ {
					k++
					if k == an.ord {
						if v, ok := ev.vars[a.Comment]; ok {
							return v
						}
					}
				}
			}
		}
	}
	ev.fail("unknown identifier %q", name)
	return Val{}
}

func (ev *evaluator) object(o types.Object) Val {
	c := ev.c()
	switch o := o.(type) {
	case *types.Const:
		if b, ok := o.Type().Underlying().(*types.Basic); ok && b.Info()&types.IsUntyped != 0 {
			return Val{konst: o.Val()}
		}
		return Val{t: c.constTerm(o.Val(), o.Type()), typ: o.Type()}
	case *types.Var:
		return ev.x.globalVal(ev.st, o)
	}
	ev.fail("identifier %s is not a value", o.Name())
	return Val{}
}

func (ev *evaluator) unary(x *EUn) Val {
	c := ev.c()
	if x.Op == "&" {
		// address of a local that lives in the object heap
		if id, ok := x.X.(*EIdent); ok && ev.frame != nil {
			if p := ev.frame.lookupHeapLocal(id.Name, ev.pos); p != nil {
				return Val{ptr: p, t: p.ref, typ: types.NewPointer(p.base)}
			}
		}
		// address of a field of a heap object: &p.f
		if sel, ok := x.X.(*ESel); ok {
			base := ev.eval(sel.X)
			if _, isStruct := base.typ.Underlying().(*types.Struct); isStruct {
				// &a.b.f: a.b is a struct held inside a pointed-to struct
				if _, nested := sel.X.(*ESel); nested {
					base = ev.unary(&EUn{Op: "&", X: sel.X})
				}
			}
			if _, isPtr := base.typ.Underlying().(*types.Pointer); isPtr {
				bp := c.ptrOf(base)
				stt, ok := bp.elemType().Underlying().(*types.Struct)
				if !ok {
					ev.fail("&x.f: x does not point to a struct")
				}
				for i := 0; i < stt.NumFields(); i++ {
					if stt.Field(i).Name() == sel.Name {
						np := bp.extend(pathEl{field: i, typ: stt.Field(i).Type()})
						return Val{ptr: np, typ: types.NewPointer(stt.Field(i).Type())}
					}
				}
				ev.fail("no field %s", sel.Name)
			}
		}
		ev.fail("& is only supported on local variables whose address is taken in the code and on fields of pointed-to structs")
	}
	v := ev.eval(x.X)
	switch x.Op {
	case "!":
		return Val{t: mkNot(ev.term(v)), typ: types.Typ[types.Bool]}
	case "-":
		if v.konst != nil && v.t == nil {
			return Val{konst: constant.UnaryOp(token.SUB, v.konst, 0)}
		}
		if w, ok := isFloat(v.typ); ok {
			return Val{t: ev.x.fromFP(ev.st, app("fp.neg", fpSort(w), fpOf(v.t, w)), w), typ: v.typ}
		}
		return Val{t: c.neg(v.t, v.typ, nil), typ: v.typ}
	case "+":
		return v
	case "^":
		if v.konst != nil && v.t == nil {
			ev.fail("^ on untyped constant")
		}
		return Val{t: c.bitnot(v.t, v.typ), typ: v.typ}
	case "*":
		p := c.ptrOf(v)
		return c.load(ev.st, p)
	}
	ev.fail("unary %s not supported", x.Op)
	return Val{}
}

func (ev *evaluator) unify(a, b Val) (Val, Val) {
	if a.konst != nil && a.t == nil && b.konst != nil && b.t == nil {
		return a, b
	}
	if a.konst != nil && a.t == nil {
		return ev.typed(a, b.typ), b
	}
	if b.konst != nil && b.t == nil {
		return a, ev.typed(b, a.typ)
	}
	return a, b
}

var cmpTokens = map[string]token.Token{"==": token.EQL, "!=": token.NEQ, "<": token.LSS, "<=": token.LEQ, ">": token.GTR, ">=": token.GEQ}
var arithTokens = map[string]token.Token{"+": token.ADD, "-": token.SUB, "*": token.MUL, "/": token.QUO, "%": token.REM, "&": token.AND, "|": token.OR, "^": token.XOR, "&^": token.AND_NOT}

func (ev *evaluator) binary(x *EBin) Val {
	c := ev.c()
	boolT := types.Typ[types.Bool]
	switch x.Op {
	case "&&":
		return Val{t: mkAnd(ev.evalBool(x.X), ev.evalBool(x.Y)), typ: boolT}
	case "||":
		return Val{t: mkOr(ev.evalBool(x.X), ev.evalBool(x.Y)), typ: boolT}
	case "==>":
		return Val{t: mkImp(ev.evalBool(x.X), ev.evalBool(x.Y)), typ: boolT}
	case "<==>":
		return Val{t: mkEq(ev.evalBool(x.X), ev.evalBool(x.Y)), typ: boolT}
	}
	a := ev.eval(x.X)
	b := ev.eval(x.Y)
	if x.Op == "<<" || x.Op == ">>" {
		if a.konst != nil && a.t == nil && !(b.konst != nil && b.t == nil) {
			ev.fail("shift of an untyped constant by a variable: give the left operand a type, e.g. uint16(1) << n")
		}
	} else {
		a, b = ev.unify(a, b)
	}
	if a.konst != nil && a.t == nil {
		// both untyped constants
		if tk, ok := cmpTokens[x.Op]; ok {
			if constant.Compare(a.konst, tk, b.konst) {
				return Val{t: tTrue, typ: boolT}
			}
			return Val{t: tFalse, typ: boolT}
		}
		if x.Op == "<<" || x.Op == ">>" {
			n, _ := constant.Uint64Val(b.konst)
			tk := token.SHL
			if x.Op == ">>" {
				tk = token.SHR
			}
			return Val{konst: constant.Shift(a.konst, tk, uint(n))}
		}
		tk := arithTokens[x.Op]
		if tk == token.QUO && a.konst.Kind() == constant.Int && b.konst.Kind() == constant.Int {
			tk = token.QUO_ASSIGN
		}
		return Val{konst: constant.BinaryOp(a.konst, tk, b.konst)}
	}
	if tk, ok := cmpTokens[x.Op]; ok {
		return Val{t: ev.compare(tk, a, b), typ: boolT}
	}
	if x.Op == "<<" || x.Op == ">>" {
		tk := token.SHL
		if x.Op == ">>" {
			tk = token.SHR
		}
		bt := b.typ
		if b.konst != nil && b.t == nil {
			b = ev.typed(b, types.Typ[types.Uint])
			bt = b.typ
		}
		return Val{t: c.shift(tk, a.t, b.t, a.typ, bt), typ: a.typ}
	}
	tk, ok := arithTokens[x.Op]
	if !ok {
		ev.fail("operator %s not supported", x.Op)
	}
	if w, isf := isFloat(a.typ); isf {
		return Val{t: ev.x.fpArith(ev.st, tk, a.t, b.t, w), typ: a.typ}
	}
	if isString(a.typ) && tk == token.ADD {
		return Val{t: app("sconcat", "Str", a.t, b.t), typ: a.typ}
	}
	if a.t.sort != b.t.sort {
		ev.fail("operands of %s have different types: %s (%s) and %s (%s)", x.Op, exprString(x.X), a.typ, exprString(x.Y), b.typ)
	}
	return Val{t: c.arith(tk, a.t, b.t, a.typ, nil), typ: a.typ}
}

func (ev *evaluator) compare(tk token.Token, a, b Val) *T {
	c := ev.c()
	// nil comparisons
	if isNilVal(a) {
		a, b = b, a
	}
	if isNilVal(b) {
		var isnil *T
		switch a.typ.Underlying().(type) {
		case *types.Slice:
			isnil = mkEq(c.slRef(ev.term(a)), refConst(0))
		case *types.Interface:
			isnil = c.ifaceIsNil(ev.term(a))
		case *types.Pointer, *types.Map, *types.Signature, *types.Chan:
			if a.ptr != nil {
				isnil = mkNot(c.ptrNonNil(a.ptr))
			} else {
				isnil = mkEq(a.t, refConst(0))
			}
		default:
			ev.fail("comparison of %s with nil", a.typ)
		}
		if tk == token.EQL {
			return isnil
		}
		return mkNot(isnil)
	}
	at, bt := ev.term(a), ev.term(b)
	if at.sort != bt.sort {
		// interface vs concrete: wrap the concrete side
		if at.sort == "Iface" && b.typ != nil {
			bt = c.mkIface(b.typ, bt)
		} else if bt.sort == "Iface" && a.typ != nil {
			at = c.mkIface(a.typ, at)
		} else {
			ev.fail("comparison of different sorts %s vs %s", a.typ, b.typ)
		}
	}
	if _, ok := a.typ.Underlying().(*types.Slice); ok && (tk == token.EQL || tk == token.NEQ) {
		eq := ev.seqEq(a, b)
		if tk == token.NEQ {
			return mkNot(eq)
		}
		return eq
	}
	return c.cmp(tk, at, bt, a.typ)
}

func isNilVal(v Val) bool {
	if v.typ == nil {
		return false
	}
	b, ok := v.typ.(*types.Basic)
	return ok && b.Kind() == types.UntypedNil
}

var qcounter int

// seqEq: same length and elementwise equal contents
func (ev *evaluator) seqEq(a, b Val) *T {
	c := ev.c()
	at, bt := ev.term(a), ev.term(b)
	et := a.typ.Underlying().(*types.Slice).Elem()
	_ = c.sortOf(et)
	qcounter++
	k := atom(fmt.Sprintf("k!%d", qcounter), c.intSort())
	intT := types.Typ[types.Int]
	arr := c.arrOf(ev.st, et)
	ea := mkSelect(mkSelect(arr, c.slRef(at)), c.ix(c.slOff(at), k))
	eb := mkSelect(mkSelect(arr, c.slRef(bt)), c.ix(c.slOff(bt), k))
	var elemEq *T
	if _, isf := isFloat(et); isf {
		elemEq = mkEq(ea, eb)
	} else {
		elemEq = mkEq(ea, eb)
	}
	body := mkImp(mkAnd(c.cmp(token.LEQ, c.I(0), k, intT), c.cmp(token.LSS, k, c.slLen(at), intT)), elemEq)
	q := app(fmt.Sprintf("forall ((%s %s))", k.op, k.sort), "Bool", body)
	return mkAnd(mkEq(c.slLen(at), c.slLen(bt)), q)
}

func (ev *evaluator) selector(x *ESel) Val {
	c := ev.c()
	// package-qualified identifier
	if id, ok := x.X.(*EIdent); ok {
		if _, bound := ev.vars[id.Name]; !bound && (ev.frame == nil || ev.frame.lookupLocal(id.Name, ev.pos) == nil) {
			if ev.pkg != nil && ev.pkg.Scope().Lookup(id.Name) == nil {
				for _, imp := range ev.x.prog.prog.AllPackages() {
					if imp.Pkg.Name() == id.Name {
						if o := imp.Pkg.Scope().Lookup(x.Name); o != nil {
							return ev.object(o)
						}
					}
				}
			}
		}
	}
	v := ev.eval(x.X)
	if v.typ == nil {
		ev.fail("selector on untyped value %s", exprString(x.X))
	}
	// special pseudo-fields of slices
	obj, index, _ := types.LookupFieldOrMethod(v.typ, true, ev.pkgOf(v.typ), x.Name)
	if obj == nil {
		ev.fail("no field %s in %s", x.Name, v.typ)
	}
	if _, isVar := obj.(*types.Var); !isVar {
		ev.fail("%s is a method, not a field", x.Name)
	}
	cur := v
	for _, fi := range index {
		// auto-deref
		if _, isPtr := cur.typ.Underlying().(*types.Pointer); isPtr {
			p := c.ptrOf(cur)
			cur = c.load(ev.st, p)
		}
		st, ok := cur.typ.Underlying().(*types.Struct)
		if !ok {
			ev.fail("field selection on non-struct %s", cur.typ)
		}
		si := c.structOf(cur.typ)
		cur = Val{t: mkSel(si.ctor, fi, cur.t), typ: st.Field(fi).Type()}
	}
	return cur
}

func (ev *evaluator) pkgOf(t types.Type) *types.Package {
	if pt, ok := t.(*types.Pointer); ok {
		t = pt.Elem()
	}
	if n, ok := t.(*types.Named); ok && n.Obj().Pkg() != nil {
		return n.Obj().Pkg()
	}
	return ev.pkg
}

func (ev *evaluator) index(x *EIndex) Val {
	c := ev.c()
	v := ev.eval(x.X)
	i := ev.typed(ev.eval(x.I), types.Typ[types.Int])
	if v.typ == nil {
		ev.fail("index on untyped value")
	}
	if pt, ok := v.typ.Underlying().(*types.Pointer); ok {
		if _, isArr := pt.Elem().Underlying().(*types.Array); isArr {
			v = c.load(ev.st, c.ptrOf(v))
		}
	}
	if u, ok := v.typ.Underlying().(*types.Map); ok {
		return ev.x.mapLookupVal(ev.st, v, ev.typed(ev.eval(x.I), u.Key()))
	}
	it := ev.toInt(i)
	switch u := v.typ.Underlying().(type) {
	case *types.Slice:
		arr := mkSelect(c.arrOf(ev.st, u.Elem()), c.slRef(v.t))
		return Val{t: mkSelect(arr, c.ix(c.slOff(v.t), it)), typ: u.Elem()}
	case *types.Array:
		return Val{t: mkSelect(v.t, it), typ: u.Elem()}
	case *types.Basic:
		if isString(v.typ) {
			return Val{t: app("sbyte", c.bvOrInt(8), v.t, it), typ: types.Typ[types.Uint8]}
		}
	case *types.Map:
		return ev.x.mapLookupVal(ev.st, v, ev.typed(ev.eval(x.I), u.Key()))
	}
	ev.fail("cannot index %s", v.typ)
	return Val{}
}

// toInt converts an integer value to the `int` sort of the current mode
func (ev *evaluator) toInt(v Val) *T {
	v = ev.typed(v, types.Typ[types.Int])
	if _, _, ok := intInfo(v.typ); !ok {
		ev.fail("integer expected, got %s", v.typ)
	}
	return ev.c().convertInt(v.t, v.typ, types.Typ[types.Int])
}

func (ev *evaluator) sliceExpr(x *ESlice) Val {
	c := ev.c()
	v := ev.eval(x.X)
	intT := types.Typ[types.Int]
	if isString(v.typ) {
		ev.fail("string slicing not supported in contracts")
	}
	if _, ok := v.typ.Underlying().(*types.Slice); !ok {
		ev.fail("slice expression on %s", v.typ)
	}
	lo := c.I(0)
	hi := c.slLen(v.t)
	if x.Lo != nil {
		lo = ev.toInt(ev.eval(x.Lo))
	}
	if x.Hi != nil {
		hi = ev.toInt(ev.eval(x.Hi))
	}
	return Val{t: c.mkSlice(c.slRef(v.t), c.arith(token.ADD, c.slOff(v.t), lo, intT, nil), c.arith(token.SUB, hi, lo, intT, nil), c.arith(token.SUB, c.slCap(v.t), lo, intT, nil)), typ: v.typ}
}

func (ev *evaluator) quant(x *EQuant) Val {
	c := ev.c()
	n := ev
	var decl []string
	var bound []string
	for _, b := range x.Vars {
		t := ev.resolveType(b.Type)
		qcounter++
		a := atom(fmt.Sprintf("%s!q%d", sanitize(b.Name), qcounter), c.sortOf(t))
		n = n.bind(b.Name, Val{t: a, typ: t})
		decl = append(decl, fmt.Sprintf("(%s %s)", a.op, a.sort))
		bound = append(bound, a.op)
	}
	// explicit patterns: forall ... :: triggers(t1, t2, ...) ==> body   (one multi-pattern)
	if bin, ok := x.Body.(*EBin); ok && bin.Op == "==>" {
		if call, ok := bin.X.(*ECall); ok {
			if id, ok := call.Fun.(*EIdent); ok && id.Name == "triggers" {
				var pats []string
				for _, a := range call.Args {
					pats = append(pats, n.term(n.eval(a)).String())
				}
				body := n.evalBool(bin.Y)
				qn := "exists"
				if x.Forall {
					qn = "forall"
				}
				ann := &T{op: "!", args: []*T{body, atom(":pattern ("+strings.Join(pats, " ")+")", "Attr")}, sort: "Bool"}
				return Val{t: app(qn+" ("+strings.Join(decl, " ")+")", "Bool", ann), typ: types.Typ[types.Bool]}
			}
		}
	}
	body := n.evalBool(x.Body)
	q := "exists"
	if x.Forall {
		q = "forall"
	}
	if isTrue(body) || isFalse(body) {
		return Val{t: body, typ: types.Typ[types.Bool]}
	}
	bodies := quantBodies(body, bound)
	var qs []*T
	for _, bd := range bodies {
		qs = append(qs, app(q+" ("+strings.Join(decl, " ")+")", "Bool", bd))
	}
	if len(qs) == 1 {
		return Val{t: qs[0], typ: types.Typ[types.Bool]}
	}
	if x.Forall {
		return Val{t: mkAnd(qs...), typ: types.Typ[types.Bool]}
	}
	return Val{t: mkOr(qs...), typ: types.Typ[types.Bool]}
}

// withTriggers annotates a quantifier body with explicit patterns when every bound variable
// occurs as a direct argument of an uninterpreted application (ix, opaque/spec/seq functions,
// bitof/setbit, apply): arithmetic-free triggers make instantiation predictable.
// shiftBound: if the bound variable v occurs in trigger position only as (+ c v) with one ground c
// (e.g. s[1+k]), rewrite the body over j = c + v, so that the trigger ix(off, j) has the variable as a
// direct argument. Returns the new body (v replaced by (- v c), (+ c v) by v) — the binder is reused.
func shiftBound(body *T, v string, force bool) (*T, bool) {
	direct := false
	var shift *T
	consistent := true
	viewShift := false
	var scan func(t *T)
	scan = func(t *T) {
		if len(t.args) == 0 {
			return
		}
		if t.op == "ix" && len(t.args) == 2 && len(t.args[1].args) == 0 && t.args[1].op == v {
			// ix((+ o c), v): a view shifted by the numeral c
			if u := t.args[0]; u.op == "+" && len(u.args) == 2 {
				if _, isNum := numeralValue(u.args[1]); isNum {
					if shift == nil {
						shift = u.args[1]
						viewShift = true
					} else if !same(shift, u.args[1]) {
						consistent = false
					}
				}
			}
		}
		if triggerHead(t.op) {
			for _, a := range t.args {
				if len(a.args) == 0 && a.op == v {
					direct = true
				}
				if a.op == "+" && len(a.args) == 2 {
					var c *T
					if len(a.args[1].args) == 0 && a.args[1].op == v {
						c = a.args[0]
					} else if len(a.args[0].args) == 0 && a.args[0].op == v {
						c = a.args[1]
					}
					if c != nil {
						at := map[string]bool{}
						collectAtoms(c, at)
						ground := true
						for n := range at {
							if strings.Contains(n, "!q") || strings.HasPrefix(n, "k!") {
								ground = false
							}
						}
						if !ground {
							consistent = false
						} else if shift == nil {
							shift = c
						} else if !same(shift, c) {
							consistent = false
						}
					}
				}
			}
		}
		for _, a := range t.args {
			scan(a)
		}
	}
	scan(body)
	if shift == nil || !consistent || (direct && !force) {
		return body, false
	}
	vAtom := atom(v, "Int")
	var subst func(t *T) *T
	subst = func(t *T) *T {
		if len(t.args) == 0 {
			if t.op == v {
				return app("-", "Int", vAtom, shift)
			}
			return t
		}
		if t.op == "+" && len(t.args) == 2 {
			if (len(t.args[1].args) == 0 && t.args[1].op == v && same(t.args[0], shift)) || (len(t.args[0].args) == 0 && t.args[0].op == v && same(t.args[1], shift)) {
				return vAtom
			}
		}
		if viewShift && t.op == "ix" && len(t.args) == 2 && len(t.args[1].args) == 0 && t.args[1].op == v {
			if u := t.args[0]; u.op == "+" && len(u.args) == 2 && same(u.args[1], shift) {
				return app("ix", "Int", u.args[0], vAtom)
			}
		}
		na := make([]*T, len(t.args))
		changed := false
		for i, a := range t.args {
			na[i] = subst(a)
			if na[i] != a {
				changed = true
			}
		}
		if !changed {
			return t
		}
		return &T{op: t.op, args: na, sort: t.sort, bit: t.bit}
	}
	return subst(body), true
}

// quantBodies: the body annotated with triggers, plus (when a bound variable occurs both directly and in
// shifted index position, e.g. s[1+k] == t[k]) an equivalent second body over the shifted variable, so that
// ground terms of either shape trigger an instance.
// twinGuards: for every view access ix((+ o c), e) in the body (c a numeral) the valid equation
// ix((+ o c), e) = ix(o, c+e). Guarding the body with them is an equivalence, and it brings the twin
// index terms into the query in whichever polarity the quantifier is used.
func twinGuards(body *T) []*T {
	seen := map[string]bool{}
	var out []*T
	var walk func(t *T)
	walk = func(t *T) {
		if len(t.args) == 0 {
			return
		}
		if t.op == "ix" && len(t.args) == 2 {
			if u := t.args[0]; u.op == "+" && len(u.args) == 2 {
				if cv, ok := numeralValue(u.args[1]); ok {
					k := t.String()
					if !seen[k] {
						seen[k] = true
						var idx *T
						if kv, ok2 := numeralValue(t.args[1]); ok2 {
							idx = atom(new(big.Int).Add(cv, kv).String(), "Int")
						} else {
							idx = app("+", "Int", u.args[1], t.args[1])
						}
						out = append(out, mkEq(t, app("ix", "Int", u.args[0], idx)))
					}
				}
			}
		}
		for _, a := range t.args {
			walk(a)
		}
	}
	walk(body)
	return out
}

func quantBodies(body *T, bound []string) []*T {
	if g := twinGuards(body); len(g) > 0 && len(g) <= 6 {
		body = mkImp(mkAnd(g...), body)
	}
	out := []*T{withTriggers(body, bound)}
	for _, b := range bound {
		if alt, ok := shiftBound(body, b, true); ok {
			if plain, ok2 := shiftBound(body, b, false); !ok2 || !same(plain, alt) {
				out = append(out, withTriggers(alt, bound))
				break
			}
		}
	}
	return out
}

func withTriggers(body *T, bound []string) *T {
	for _, b := range bound {
		body, _ = shiftBound(body, b, false)
	}
	isBound := map[string]bool{}
	for _, b := range bound {
		isBound[b] = true
	}
	cands := map[string][]*T{} // var -> candidate trigger terms
	seen := map[string]bool{}
	var walk func(t *T, underQ map[string]bool)
	walk = func(t *T, inner map[string]bool) {
		if len(t.args) == 0 {
			return
		}
		// do not descend with inner-bound variables as triggers for the outer quantifier
		if strings.HasPrefix(t.op, "forall (") || strings.HasPrefix(t.op, "exists (") || strings.HasPrefix(t.op, "lambda (") {
			in2 := map[string]bool{}
			for k := range inner {
				in2[k] = true
			}
			for _, f := range strings.Fields(strings.NewReplacer("(", " ", ")", " ").Replace(t.op)) {
				if strings.Contains(f, "!") {
					in2[f] = true
				}
			}
			for _, a := range t.args {
				walk(a, in2)
			}
			return
		}
		if t.op == "!" {
			walk(t.args[0], inner)
			return
		}
		if triggerHead(t.op) {
			// collect bound vars that are direct arguments; reject if the term mentions inner-bound vars
			atoms := map[string]bool{}
			collectAtoms(t, atoms)
			ok := true
			for a := range atoms {
				if inner[a] {
					ok = false
				}
			}
			if ok {
				for _, a := range t.args {
					// the bound variable itself, or a selector chain applied to it (sl-off s, S.f x, ...)
					b := a
					for len(b.args) == 1 && isSelectorOp(b.op) {
						b = b.args[0]
					}
					if len(b.args) == 0 && isBound[b.op] {
						key := b.op + "|" + t.String()
						if !seen[key] {
							seen[key] = true
							cands[b.op] = append(cands[b.op], t)
						}
					}
				}
			}
		}
		for _, a := range t.args {
			walk(a, inner)
		}
	}
	walk(body, map[string]bool{})
	for _, b := range bound {
		if len(cands[b]) == 0 {
			return body
		}
	}
	// prefer small trigger terms
	for _, b := range bound {
		cs := cands[b]
		sort.SliceStable(cs, func(i, j int) bool { return cs[i].size(1000) < cs[j].size(1000) })
	}
	// one pattern per choice of the first variable's candidates (up to 3), covering the other variables with their first candidate
	var pats []string
	first := cands[bound[0]]
	if len(first) > 3 {
		first = first[:3]
	}
	for _, f0 := range first {
		terms := []*T{f0}
		covered := map[string]bool{}
		at := map[string]bool{}
		collectAtoms(f0, at)
		for _, b := range bound {
			if at[b] {
				covered[b] = true
			}
		}
		for _, b := range bound[1:] {
			if covered[b] {
				continue
			}
			t := cands[b][0]
			terms = append(terms, t)
			at2 := map[string]bool{}
			collectAtoms(t, at2)
			for _, bb := range bound {
				if at2[bb] {
					covered[bb] = true
				}
			}
		}
		var ss []string
		for _, t := range terms {
			ss = append(ss, t.String())
		}
		pats = append(pats, ":pattern ("+strings.Join(ss, " ")+")")
	}
	return &T{op: "!", args: []*T{body, atom(strings.Join(pats, " "), "Attr")}, sort: "Bool"}
}

func isSelectorOp(op string) bool {
	return strings.HasPrefix(op, "sl-") || strings.HasPrefix(op, "S_") || strings.HasPrefix(op, "t-")
}

func triggerHead(op string) bool {
	switch op {
	case "ix", "bitof", "setbit", "slen", "sbyte", "select":
		return true
	}
	for _, p := range []string{"op_", "sf_", "sq_", "applyfn_"} {
		if strings.HasPrefix(op, p) {
			return true
		}
	}
	return false
}

func (ev *evaluator) call(x *ECall) Val {
	c := ev.c()
	intT := types.Typ[types.Int]
	// conversion with parenthesised type
	if ty, ok := x.Fun.(*EType); ok {
		t := ev.resolveType(ty.Text)
		return ev.convert(ev.eval(x.Args[0]), t)
	}
	id, isId := x.Fun.(*EIdent)
	if !isId {
		// pkg.Type(x) conversion or pkg.specfunc
		if sel, ok := x.Fun.(*ESel); ok {
			if pid, ok := sel.X.(*EIdent); ok {
				for _, imp := range ev.x.prog.prog.AllPackages() {
					if imp.Pkg.Name() == pid.Name {
						if o, ok := imp.Pkg.Scope().Lookup(sel.Name).(*types.TypeName); ok {
							return ev.convert(ev.eval(x.Args[0]), o.Type())
						}
					}
				}
			}
		}
		ev.fail("cannot call %s", exprString(x.Fun))
	}
	switch id.Name {
	case "old":
		if ev.old == nil {
			ev.fail("old() is not available here")
		}
		n := *ev
		if n.localsSt == nil {
			n.localsSt = ev.st
		}
		n.st = ev.old
		return n.eval(x.Args[0])
	case "before":
		// before(e): e in the state just before a `havoc ... at` of the same statement
		if ev.before == nil {
			ev.fail("before() is only available in assume/assert clauses that follow a havoc clause at the same statement")
		}
		n := *ev
		if n.localsSt == nil {
			n.localsSt = ev.st
		}
		n.st = ev.before
		return n.eval(x.Args[0])
	case "preloop":
		if ev.preloop == nil {
			ev.fail("preloop() is only available in loop invariants")
		}
		n := *ev
		n.st = ev.preloop
		return n.eval(x.Args[0])
	case "len", "cap":
		v := ev.eval(x.Args[0])
		if pt, ok := v.typ.Underlying().(*types.Pointer); ok {
			if _, isArr := pt.Elem().Underlying().(*types.Array); isArr {
				v = Val{typ: pt.Elem()}
			}
		}
		switch u := v.typ.Underlying().(type) {
		case *types.Slice:
			if id.Name == "len" {
				return Val{t: c.slLen(v.t), typ: intT}
			}
			return Val{t: c.slCap(v.t), typ: intT}
		case *types.Array:
			return Val{t: c.I(u.Len()), typ: intT}
		case *types.Basic:
			if isString(v.typ) {
				return Val{t: app("slen", c.intSort(), v.t), typ: intT}
			}
		case *types.Map:
			return Val{t: ev.x.mapLen(ev.st, v), typ: intT}
		}
		ev.fail("len of %s", v.typ)
	case "ite":
		cond := ev.evalBool(x.Args[0])
		a, b := ev.unify(ev.eval(x.Args[1]), ev.eval(x.Args[2]))
		a = ev.typed(a, nil)
		b = ev.typed(b, a.typ)
		return Val{t: mkIte(cond, ev.term(a), ev.term(b)), typ: a.typ}
	case "isfresh":
		v := ev.eval(x.Args[0])
		switch v.typ.Underlying().(type) {
		case *types.Slice:
			return Val{t: app("<", "Bool", c.slRef(v.t), refConst(0)), typ: types.Typ[types.Bool]}
		case *types.Pointer, *types.Map:
			return Val{t: app("<", "Bool", ev.term(v), refConst(0)), typ: types.Typ[types.Bool]}
		}
		ev.fail("isfresh of %s", v.typ)
	case "allocd":
		// allocd(e): e was allocated during this call (in the callee's own verification: since its entry; at a call
		// site: between the caller's allocation pointer before the call and the one after it)
		v := ev.eval(x.Args[0])
		var rt *T
		switch v.typ.Underlying().(type) {
		case *types.Slice:
			rt = c.slRef(v.t)
		case *types.Pointer, *types.Map:
			rt = ev.term(v)
		default:
			ev.fail("allocd of %s", v.typ)
		}
		var lo0 *T = refConst(0)
		if ev.old != nil {
			lo0 = ev.old.lowRef()
		}
		return Val{t: mkAnd(app("<=", "Bool", ev.st.lowRef(), rt), app("<", "Bool", rt, lo0)), typ: types.Typ[types.Bool]}
	case "sinceLoop":
		// sinceLoop(s): the backing array of s was allocated after the enclosing loop was entered (or s is nil)
		if !ev.inLoop {
			ev.fail("sinceLoop() is only available in loop invariants")
		}
		v := ev.eval(x.Args[0])
		var rt *T
		switch v.typ.Underlying().(type) {
		case *types.Slice:
			rt = c.slRef(v.t)
		case *types.Pointer:
			rt = ev.term(v)
		default:
			ev.fail("sinceLoop of %s", v.typ)
		}
		return Val{t: mkOr(mkEq(rt, refConst(0)), mkAnd(app("<=", "Bool", ev.st.lowRef(), rt), app("<", "Bool", rt, ev.loopMark))), typ: types.Typ[types.Bool]}
	case "sameSlice":
		a, b := ev.eval(x.Args[0]), ev.eval(x.Args[1])
		return Val{t: mkEq(a.t, b.t), typ: types.Typ[types.Bool]}
	case "sameArray":
		a, b := ev.eval(x.Args[0]), ev.eval(x.Args[1])
		return Val{t: mkAnd(mkEq(c.slRef(a.t), c.slRef(b.t)), mkEq(c.slOff(a.t), c.slOff(b.t))), typ: types.Typ[types.Bool]}
	case "visited":
		// visited(k): the map iteration of the enclosing range-over-map loop has already produced key k
		var r *ssa.Range
		if ev.frame != nil {
			r = mapRangeOfLoop(ev.frame.curLoop)
			if r == nil {
				// outside a loop contract: the only map iteration of the function, if there is exactly one
				n := 0
				for _, li := range ev.frame.loops {
					if rr := mapRangeOfLoop(li); rr != nil {
						r = rr
						n++
					}
				}
				if n != 1 {
					r = nil
				}
			}
		}
		if r == nil {
			ev.fail("visited() is only available in the contract of a loop that ranges over a map")
		}
		vis, ok := ev.st.heaps["rangevis:"+rangeID(r)]
		if !ok {
			ev.fail("visited(): the iteration has not started")
		}
		mt := r.X.Type().Underlying().(*types.Map)
		k := ev.typed(ev.eval(x.Args[0]), mt.Key())
		return Val{t: mkSelect(vis, ev.term(k)), typ: types.Typ[types.Bool]}
	case "has":
		// has(m, k): key k is present in map m
		mv := ev.eval(x.Args[0])
		mt, ok := mv.typ.Underlying().(*types.Map)
		if !ok {
			ev.fail("has needs a map")
		}
		kv := ev.typed(ev.eval(x.Args[1]), mt.Key())
		return Val{t: ev.x.mapHasVal(ev.st, Val{t: ev.term(mv), typ: mv.typ}, kv), typ: types.Typ[types.Bool]}
	case "sprintf":
		// sprintf(format, a, b, ...): the string fmt.Sprintf(format, a, b, ...) as an uninterpreted function
		// of the format and the argument values (the same term the executor builds at the call)
		var ts []*T
		for i, a := range x.Args {
			v := ev.eval(a)
			if i == 0 {
				ts = append(ts, ev.term(ev.typed(v, types.Typ[types.String])))
				continue
			}
			if v.typ == nil || v.konst != nil {
				v = ev.typed(v, types.Typ[types.String])
			}
			t := ev.term(v)
			if t.sort != "Iface" {
				t = c.mkIface(v.typ, t)
			}
			ts = append(ts, t)
		}
		return Val{t: c.sprintfTerm(ts), typ: types.Typ[types.String]}
	case "str":
		// str(b): the string with the bytes of slice b (Go's string(b))
		a := ev.eval(x.Args[0])
		if _, ok := a.typ.Underlying().(*types.Slice); !ok {
			ev.fail("str needs a []byte")
		}
		return Val{t: ev.x.bytesToString(ev.st, a.t), typ: types.Typ[types.String]}
	case "arrAt":
		// arrAt(s, j): the element at absolute index j of the backing array of slice s
		a := ev.eval(x.Args[0])
		sl, ok := a.typ.Underlying().(*types.Slice)
		if !ok {
			ev.fail("arrAt needs a slice")
		}
		j := ev.toInt(ev.eval(x.Args[1]))
		return Val{t: mkSelect(mkSelect(c.arrOf(ev.st, sl.Elem()), c.slRef(a.t)), j), typ: sl.Elem()}
	case "offOf":
		a := ev.eval(x.Args[0])
		if _, ok := a.typ.Underlying().(*types.Slice); !ok {
			ev.fail("offOf needs a slice")
		}
		return Val{t: c.slOff(a.t), typ: types.Typ[types.Int]}
	case "refOf":
		a := ev.eval(x.Args[0])
		if _, ok := a.typ.Underlying().(*types.Slice); ok {
			return Val{t: c.slRef(a.t), typ: types.Typ[types.UnsafePointer]}
		}
		return Val{t: ev.term(a), typ: types.Typ[types.UnsafePointer]}
	case "isNaN":
		a := ev.eval(x.Args[0])
		w, _ := isFloat(a.typ)
		return Val{t: app("fp.isNaN", "Bool", fpOf(a.t, w)), typ: types.Typ[types.Bool]}
	case "isExc":
		// isExc(err): the error is a modbus ExceptionCode ; excCode(err): its code
		return ev.x.builtinSpec(ev, id.Name, x.Args)
	case "typeIs":
		// typeIs(x, T): dynamic type of interface x is T
		a := ev.eval(x.Args[0])
		t := ev.resolveType(exprString(x.Args[1]))
		return Val{t: mkIs(c.ifaceCtor(t), a.t), typ: types.Typ[types.Bool]}
	case "dyn":
		// dyn(x, T): the value of interface x asserted to T
		a := ev.eval(x.Args[0])
		t := ev.resolveType(exprString(x.Args[1]))
		return Val{t: mkSel(c.ifaceCtor(t), 0, a.t), typ: t}
	case "ns":
		a := ev.eval(x.Args[0])
		return Val{t: c.timeNs(a.t), typ: types.Typ[types.Int]}
	case "isUTC":
		a := ev.eval(x.Args[0])
		return Val{t: c.timeUTC(a.t), typ: types.Typ[types.Bool]}
	case "calYear", "calMonth", "calDay", "civilDay":
		var ts []*T
		var sorts []string
		for _, a := range x.Args {
			ts = append(ts, ev.toInt(ev.eval(a)))
			sorts = append(sorts, "Int")
		}
		c.d.fun(id.Name, sorts, "Int")
		return Val{t: app(id.Name, "Int", ts...), typ: types.Typ[types.Int]}
	case "fdiv", "fmod":
		// floor division / modulus (equal to Go's / and % when the dividend is non-negative and the divisor positive)
		a := ev.typed(ev.eval(x.Args[0]), types.Typ[types.Int])
		b := ev.typed(ev.eval(x.Args[1]), a.typ)
		op := "div"
		if id.Name == "fmod" {
			op = "mod"
		}
		if c.bv {
			op = map[string]string{"div": "bvudiv", "mod": "bvurem"}[op]
		}
		return Val{t: app(op, a.t.sort, a.t, b.t), typ: a.typ}
	case "apply":
		// apply(f, args...): application of a function-typed value, modelled as a pure function
		f := ev.eval(x.Args[0])
		sig, ok := f.typ.Underlying().(*types.Signature)
		if !ok || sig.Results().Len() != 1 {
			ev.fail("apply needs a function value with one result")
		}
		sorts := []string{"Int"}
		ts := []*T{ev.term(f)}
		for i, a := range x.Args[1:] {
			v := ev.typed(ev.eval(a), sig.Params().At(i).Type())
			sorts = append(sorts, v.t.sort)
			ts = append(ts, v.t)
		}
		rt := sig.Results().At(0).Type()
		name := fmt.Sprintf("applyfn_%s_%d", sanitize(typeKey(sig)), 0)
		c.d.fun(name, sorts, c.sortOf(rt))
		return Val{t: app(name, c.sortOf(rt), ts...), typ: rt}
	case "bits32":
		a := ev.eval(x.Args[0])
		return Val{t: ev.x.floatBits(a.t, 32), typ: types.Typ[types.Uint32]}
	case "bits64":
		a := ev.eval(x.Args[0])
		return Val{t: ev.x.floatBits(a.t, 64), typ: types.Typ[types.Uint64]}
	}
	// conversion to a named or basic type
	if _, bound := ev.vars[id.Name]; !bound {
		if t := ev.lookupTypeName(id.Name); t != nil {
			if len(x.Args) != 1 {
				ev.fail("conversion needs one argument")
			}
			return ev.convert(ev.eval(x.Args[0]), t)
		}
	}
	// spec function
	if sf, ok := ev.x.specs.specs[id.Name]; ok {
		return ev.applySpec(sf, x.Args)
	}
	ev.fail("unknown function %q in contract", id.Name)
	return Val{}
}

func (ev *evaluator) lookupTypeName(name string) types.Type {
	if name == "byte" {
		return types.Typ[types.Uint8]
	}
	if ev.pkg != nil {
		if o, ok := ev.pkg.Scope().Lookup(name).(*types.TypeName); ok {
			return o.Type()
		}
	}
	if o, ok := types.Universe.Lookup(name).(*types.TypeName); ok {
		return o.Type()
	}
	return nil
}

func (ev *evaluator) convert(v Val, t types.Type) Val {
	c := ev.c()
	if v.konst != nil && v.t == nil {
		return ev.typed(v, t)
	}
	if _, _, ok := intInfo(t); ok {
		if _, _, ok2 := intInfo(v.typ); ok2 {
			return Val{t: c.convertInt(v.t, v.typ, t), typ: t}
		}
		if _, isf := isFloat(v.typ); isf {
			return Val{t: ev.x.floatToInt(v.t, v.typ, t), typ: t}
		}
	}
	if w, ok := isFloat(t); ok {
		if _, _, ok2 := intInfo(v.typ); ok2 {
			return Val{t: ev.x.intToFloat(ev.st, v.t, v.typ, w), typ: t}
		}
		if wf, ok2 := isFloat(v.typ); ok2 {
			if wf == w {
				return Val{t: v.t, typ: t}
			}
			return Val{t: ev.x.floatToFloat(ev.st, v.t, wf, w), typ: t}
		}
	}
	if c.sortOf(t) == v.t.sort {
		return Val{t: v.t, typ: t}
	}
	ev.fail("conversion from %s to %s not supported", v.typ, t)
	return Val{}
}

// applySpec applies a spec function: macro expansion if it has a body,
// uninterpreted application otherwise.
func (ev *evaluator) applySpec(sf *specFunc, args []Expr) Val {
	c := ev.c()
	if len(args) != len(sf.params) {
		ev.fail("spec func %s expects %d arguments", sf.name, len(sf.params))
	}
	if ev.depth > 40 {
		ev.fail("spec func expansion too deep (recursive?) at %s", sf.name)
	}
	// spec funcs are resolved in their own package
	spkg := ev.pkg
	if sp := ev.x.prog.spkgs[sf.pkg]; sp != nil {
		spkg = sp.Pkg
	}
	sev := *ev
	sev.pkg = spkg
	var vals []Val
	for i, a := range args {
		v := ev.eval(a)
		pt := sev.resolveType(sf.params[i].Type)
		v = ev.typed(v, pt)
		// implicit conversion of concrete value to interface parameter
		if _, isIf := pt.Underlying().(*types.Interface); isIf && v.t != nil && v.t.sort != "Iface" {
			v = Val{t: c.mkIface(v.typ, ev.term(v)), typ: pt}
		}
		vals = append(vals, v)
	}
	if sf.seq {
		var sorts []string
		var ts []*T
		for _, v := range vals {
			if sl, ok := v.typ.Underlying().(*types.Slice); ok {
				es := c.sortOf(sl.Elem())
				arr := mkSelect(c.arrOf(ev.st, sl.Elem()), c.slRef(v.t))
				qcounter++
				k := atom(fmt.Sprintf("k!%d", qcounter), c.intSort())
				intT := types.Typ[types.Int]
				idx := c.ix(c.slOff(v.t), k)
				body := mkIte(mkAnd(c.cmp(token.LEQ, c.I(0), k, intT), c.cmp(token.LSS, k, c.slLen(v.t), intT)), app("select", es, arr, idx), c.zero(sl.Elem()))
				lam := app(fmt.Sprintf("lambda ((%s %s))", k.op, k.sort), arraySort(c.intSort(), es), body)
				sorts = append(sorts, lam.sort, c.intSort())
				ts = append(ts, lam, c.slLen(v.t))
				continue
			}
			t := ev.term(v)
			sorts = append(sorts, t.sort)
			ts = append(ts, t)
		}
		rt := sev.resolveType(sf.ret)
		name := "sq_" + sf.name
		c.d.fun(name, sorts, c.sortOf(rt))
		ev.x.note("sequence function " + sf.name + " is an uninterpreted function of the contents of its slice arguments")
		return Val{t: app(name, c.sortOf(rt), ts...), typ: rt}
	}
	if sf.opaque {
		n := sev
		n.vars = map[string]Val{}
		n.frame = nil
		n.where = sf.line
		for i, p := range sf.params {
			n.vars[p.Name] = vals[i]
		}
		var sorts []string
		var ts []*T
		for _, rd := range sf.reads {
			pc := n.heapPiece(rd)
			sorts = append(sorts, pc.sort)
			ts = append(ts, pc)
		}
		for _, v := range vals {
			t := ev.term(v)
			sorts = append(sorts, t.sort)
			ts = append(ts, t)
		}
		rt := sev.resolveType(sf.ret)
		name := "op_" + sf.name
		c.d.fun(name, sorts, c.sortOf(rt))
		return Val{t: app(name, c.sortOf(rt), ts...), typ: rt}
	}
	body := sf.body
	use := sf
	if sf.model && ev.implFor != nil {
		for _, im := range sf.impls {
			it := sev.resolveType(im.params[0].Type)
			if types.Identical(it, ev.implFor) {
				use = im
				body = im.body
				// unwrap receiver
				if vals[0].t.sort == "Iface" {
					vals[0] = Val{t: mkSel(c.ifaceCtor(it), 0, vals[0].t), typ: it}
				}
			}
		}
	}
	if body != nil {
		n := sev
		n.vars = map[string]Val{}
		n.frame = nil
		n.depth = ev.depth + 1
		n.where = sf.line
		for i, p := range use.params {
			n.vars[p.Name] = vals[i]
		}
		r := n.eval(body)
		rt := sev.resolveType(use.ret)
		return n.typed(r, rt)
	}
	// uninterpreted
	rt := sev.resolveType(sf.ret)
	var sorts []string
	var ts []*T
	if sf.model {
		key := sf.params[0].Type
		tok := ev.x.tokenOf(ev.st, key)
		sorts = append(sorts, "Int")
		ts = append(ts, tok)
	}
	for _, v := range vals {
		t := ev.term(v)
		sorts = append(sorts, t.sort)
		ts = append(ts, t)
	}
	name := "sf_" + sf.name
	c.d.fun(name, sorts, c.sortOf(rt))
	return Val{t: app(name, c.sortOf(rt), ts...), typ: rt}
}

// heapPiece evaluates a reads-target to the heap piece it denotes in the evaluator's state:
// a pointer denotes the pointed-to object, a slice its backing array.
func (ev *evaluator) heapPiece(e Expr) *T {
	c := ev.c()
	v := ev.eval(e)
	switch u := v.typ.Underlying().(type) {
	case *types.Pointer:
		return mkSelect(c.heapOf(ev.st, u.Elem()), ev.term(v))
	case *types.Slice:
		return mkSelect(c.arrOf(ev.st, u.Elem()), c.slRef(v.t))
	}
	ev.fail("reads target %s must be a pointer or a slice", exprString(e))
	return nil
}

// genericAxiom evaluates a state-generic axiom: forall binders and forall heap pieces named by reads.
func (ev *evaluator) genericAxiom(ax *axiomDecl) *T {
	c := ev.c()
	q, ok := ax.cl.e.(*EQuant)
	if !ok || !q.Forall {
		ev.fail("axiom with a reads clause must be a forall")
	}
	n := ev
	var decl []string
	var preWF []*T
	for _, b := range q.Vars {
		t := ev.resolveType(b.Type)
		qcounter++
		a := atom(fmt.Sprintf("%s!q%d", sanitize(b.Name), qcounter), c.sortOf(t))
		n = n.bind(b.Name, Val{t: a, typ: t})
		decl = append(decl, fmt.Sprintf("(%s %s)", a.op, a.sort))
		// the axiom speaks about well-formed Go values only (e.g. 0 <= len <= cap for slices)
		if _, isInt := t.Underlying().(*types.Basic); !isInt {
			preWF = append(preWF, c.valueWF(a, t))
		}
	}
	syn := newState()
	n = n.with(syn)
	n.old = nil
	var wf []*T
	for _, rd := range ax.reads {
		v := n.eval(rd)
		qcounter++
		switch u := v.typ.Underlying().(type) {
		case *types.Pointer:
			o := atom(fmt.Sprintf("obj!q%d", qcounter), c.sortOf(u.Elem()))
			decl = append(decl, fmt.Sprintf("(%s %s)", o.op, o.sort))
			syn.heaps[heapKey(u.Elem())] = mkStore(c.heapOf(syn, u.Elem()), n.term(v), o)
			wf = append(wf, c.valueWF(o, u.Elem()))
		case *types.Slice:
			a := atom(fmt.Sprintf("arr!q%d", qcounter), arraySort(c.intSort(), c.sortOf(u.Elem())))
			decl = append(decl, fmt.Sprintf("(%s %s)", a.op, a.sort))
			syn.arrs[heapKey(u.Elem())] = mkStore(c.arrOf(syn, u.Elem()), c.slRef(v.t), a)
		default:
			ev.fail("reads target must be a pointer or a slice")
		}
	}
	// explicit patterns: forall ... :: triggers(t1, ...) ==> body
	if bin, ok := q.Body.(*EBin); ok && bin.Op == "==>" {
		if call, ok := bin.X.(*ECall); ok {
			if id, ok := call.Fun.(*EIdent); ok && id.Name == "triggers" {
				var pats []string
				for _, a := range call.Args {
					pats = append(pats, n.term(n.eval(a)).String())
				}
				body := n.evalBool(bin.Y)
				body = mkImp(mkAnd(append(preWF, wf...)...), body)
				ann := &T{op: "!", args: []*T{body, atom(":pattern ("+strings.Join(pats, " ")+")", "Attr")}, sort: "Bool"}
				return app("forall ("+strings.Join(decl, " ")+")", "Bool", ann)
			}
		}
	}
	body := n.evalBool(q.Body)
	body = mkImp(mkAnd(append(preWF, wf...)...), body)
	var bound []string
	for _, d := range decl {
		bound = append(bound, strings.Fields(strings.Trim(d, "()"))[0])
	}
	body = withTriggers(body, bound)
	return app("forall ("+strings.Join(decl, " ")+")", "Bool", body)
}
