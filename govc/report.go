package main

import (
	"encoding/json"
	"fmt"
	"os"
	"path/filepath"
	"sort"
	"strings"
)

type failure struct {
	Obligation string `json:"obligation"`
	Kind       string `json:"kind"`
	Status     string `json:"status"`
	Text       string `json:"clause"`
	Detail     string `json:"detail,omitempty"`
	Model      string `json:"model,omitempty"`
	Replay     string `json:"replay,omitempty"`
	Confirmed  bool   `json:"confirmed_on_real_code"`
}

type oblSummary struct {
	Name    string  `json:"name"`
	Kind    string  `json:"kind"`
	Paths   int     `json:"instances"`
	Solver  string  `json:"solver"`
	Seconds float64 `json:"seconds"`
	Status  string  `json:"status"`
}

type result struct {
	Prop        string
	Tier        string
	Seed        int
	Obligations int
	Discharged  int
	Trivial     int
	Covers      int
	Failed      []failure
	KnownHits   int
	Functions   []funcReport
	PerObl      []oblSummary
	BySolver    map[string]int
	Assumptions []string
	Timing      map[string]float64
	WallS       float64
	SolverSecs  float64
	Samples     []map[string]string
}

type knownFinding struct {
	Property   string `json:"property"`
	Obligation string `json:"obligation"`
	What       string `json:"what"`
	Status     string `json:"status"` // "open" | "fixed"
	Commit     string `json:"commit,omitempty"`
}

func loadKnown(verifDir string) []knownFinding {
	b, err := os.ReadFile(filepath.Join(verifDir, "known_findings.json"))
	if err != nil {
		return nil
	}
	var doc struct {
		Findings []knownFinding `json:"findings"`
	}
	if json.Unmarshal(b, &doc) != nil {
		return nil
	}
	return doc.Findings
}

func summarize(prop, tier string, seed int, all []*obligation, reports []funcReport, assumptions map[string]bool, verifDir string, verbose bool) *result {
	res := &result{Prop: prop, Tier: tier, Seed: seed, Functions: reports, BySolver: map[string]int{}}
	known := loadKnown(verifDir)
	type group struct {
		name, kind, text string
		insts            []*obligation
	}
	groups := map[string]*group{}
	var order []string
	for _, o := range all {
		g := groups[o.name]
		if g == nil {
			g = &group{name: o.name, kind: o.kind, text: o.text}
			groups[o.name] = g
			order = append(order, o.name)
		}
		g.insts = append(g.insts, o)
	}
	for _, n := range order {
		g := groups[n]
		sum := oblSummary{Name: g.name, Kind: g.kind, Paths: len(g.insts), Status: "discharged"}
		var bad *obligation
		// vacuity guards: the point must be reachable on at least one path
		coverOK := false
		for _, o := range g.insts {
			if o.expectSat && o.status != "unsat" {
				coverOK = true
			}
		}
		for _, o := range g.insts {
			res.Obligations++
			ok := false
			switch {
			case o.expectSat:
				// vacuity guard: must not be refutable
				ok = coverOK
				res.Covers++
			case o.status == "trivial":
				ok = true
				res.Trivial++
			case o.status == "unsat":
				ok = true
			}
			if ok {
				res.Discharged++
				if o.solver != "" {
					res.BySolver[o.solver]++
				} else if o.status == "trivial" {
					res.BySolver["syntactic"]++
				} else {
					res.BySolver["cover"]++
				}
				res.SolverSecs += o.seconds
				if o.seconds > sum.Seconds {
					sum.Seconds = round2(o.seconds)
					sum.Solver = o.solver
				}
				if sum.Solver == "" {
					sum.Solver = o.solver
				}
			} else if bad == nil || (bad.status != "sat" && o.status == "sat") {
				bad = o
			}
		}
		if bad != nil {
			sum.Status = "FAILED:" + bad.status
			f := failure{Obligation: g.name, Kind: g.kind, Status: bad.status, Text: g.text, Detail: strings.TrimSpace(bad.detail), Model: bad.model}
			if bad.expectSat {
				f.Status = "vacuous"
				f.Detail = "vacuity guard refuted: the assumptions at this point are contradictory"
			}
			// known finding?
			isKnown := false
			for _, k := range known {
				if k.Status == "open" && k.Property == prop && k.Obligation == g.name {
					fmt.Printf("KNOWN-FINDING: property=%s %s %s\n", prop, g.name, k.What)
					res.KnownHits++
					isKnown = true
				}
			}
			if !isKnown {
				res.Failed = append(res.Failed, f)
			}
		}
		res.PerObl = append(res.PerObl, sum)
		if verbose {
			fmt.Printf("  %-12s %-9s %6.2fs x%-3d %s\n", sum.Status, sum.Solver, sum.Seconds, sum.Paths, sum.Name)
		}
	}
	for a := range assumptions {
		res.Assumptions = append(res.Assumptions, a)
	}
	sort.Strings(res.Assumptions)
	// samples: a few rendered obligations
	for _, o := range all {
		if len(res.Samples) >= 3 {
			break
		}
		if o.c != nil && o.status == "unsat" && (o.kind == "ensures" || o.kind == "inv-step") {
			q := o.goal.String()
			if len(q) > 600 {
				q = q[:600] + "…"
			}
			res.Samples = append(res.Samples, map[string]string{"obligation": o.name, "clause": o.text, "goal_smt": q, "solver": o.solver})
		}
	}
	// replay files and VIOLATION lines
	for i := range res.Failed {
		f := &res.Failed[i]
		dir := filepath.Join(verifDir, "replays", prop)
		os.MkdirAll(dir, 0o755)
		rp := filepath.Join(dir, sanitize(f.Obligation)+".json")
		f.Replay = rp
		confirmed := tryReplay(f, verifDir)
		f.Confirmed = confirmed
		b, _ := json.MarshalIndent(f, "", " ")
		os.WriteFile(rp, b, 0o644)
		suffix := ""
		if !confirmed {
			suffix = " no-failing-input-found"
		}
		fmt.Printf("VIOLATION property=%s replay=%s%s\n", prop, rp, suffix)
		fmt.Printf("  failed obligation: %s [%s] %s\n", f.Obligation, f.Status, f.Text)
	}
	return res
}

// tryReplay is filled in by replay.go adapters; default: not confirmed
var replayHook func(f *failure, verifDir string) bool

func tryReplay(f *failure, verifDir string) bool {
	if replayHook != nil {
		return replayHook(f, verifDir)
	}
	return false
}

func writeEvidence(res *result, path string, level, explanation, extraFile string) {
	var fnames []string
	for _, f := range res.Functions {
		fnames = append(fnames, f.Key)
	}
	assume := []string{
		"functions are verified as sequential code: sync.Mutex/RWMutex operations, logging and debug printing are dropped",
		"slice lengths and capacities are at most 2^40 elements (address-space bound)",
		"SSA construction (golang.org/x/tools/go/ssa v0.29.0, naive form) and the govc SSA→SMT translation are trusted",
		"references held in the initial heap are distinct from references allocated during the call",
	}
	assume = append(assume, res.Assumptions...)
	ext := map[string]bool{}
	ax := map[string]bool{}
	for _, f := range res.Functions {
		for _, e := range f.Externs {
			ext[e] = true
		}
		for _, a := range f.Axioms {
			ax[a] = true
		}
	}
	for _, e := range sortedKeys(ext) {
		assume = append(assume, "trusted external contract: "+e)
	}
	for _, a := range sortedKeys(ax) {
		assume = append(assume, "axiom assumed: "+a)
	}
	cov := map[string]interface{}{
		"obligations":              res.Obligations,
		"discharged":               res.Discharged,
		"discharged_syntactically": res.Trivial,
		"vacuity_guards":           res.Covers,
		"discharged_by":            res.BySolver,
		"solver_seconds":           round2(res.SolverSecs),
		"timing":                   res.Timing,
		"checker_cmd":              fmt.Sprintf("/verif/bin/check %s --tier %s", res.Prop, res.Tier),
		"trusted_base":             []string{"go/packages + go/types + go/ssa (x/tools v0.29.0)", "govc VC generator (/verif/govc)", "z3 4.8.12, z3 5.1.0, cvc5 1.0 (first definitive answer wins)"},
		"functions_under_contract": res.Functions,
		"obligation_list":          res.PerObl,
		"failed":                   failedOrEmpty(res.Failed),
		"known_findings_hit":       res.KnownHits,
		"samples":                  res.Samples,
	}
	ev := map[string]interface{}{
		"property_id": res.Prop,
		"tier":        res.Tier,
		"seed":        res.Seed,
		"level":       level,
		"coverage":    cov,
		"assumptions": assume,
		"wall_s":      res.WallS,
		"violations":  len(res.Failed),
	}
	if level == "other" {
		cov["explanation"] = explanation
	}
	if extraFile != "" {
		if b, err := os.ReadFile(extraFile); err == nil {
			var ex interface{}
			if json.Unmarshal(b, &ex) == nil {
				cov["bounded_or_computed_legs"] = ex
			}
		}
	}
	os.MkdirAll(filepath.Dir(path), 0o755)
	b, _ := json.MarshalIndent(ev, "", " ")
	os.WriteFile(path, b, 0o644)
}

func failedOrEmpty(f []failure) []failure {
	if f == nil {
		return []failure{}
	}
	return f
}
