package main

import (
	"fmt"
	"go/token"
	"go/types"

	"golang.org/x/tools/go/ssa"
)

// Maps: a map value is a reference (Int, 0 = nil map). Per map type there are two heaps,
//   Mhas_<type> : Array Int (Array K Bool)    which keys are present
//   Mval_<type> : Array Int (Array K V)       their values (zero value of V where absent)
// kept in state.heaps under the keys "maphas:<type>" / "mapval:<type>". len(m) and range over a map are not
// modelled (unsupported). Frame: writing a map that was not allocated by the call needs `modifies m`.

func mapKeys(t types.Type) (string, string) {
	k := typeKey(t)
	return "maphas:" + k, "mapval:" + k
}

func (c *ctx) mapSorts(mt *types.Map) (hasSort, valSort string) {
	ks := c.sortOf(mt.Key())
	return arraySort("Int", arraySort(ks, "Bool")), arraySort("Int", arraySort(ks, c.sortOf(mt.Elem())))
}

func (c *ctx) mapHeaps(st *state, t types.Type) (has, val *T) {
	mt := t.Underlying().(*types.Map)
	hk, vk := mapKeys(t)
	hs, vs := c.mapSorts(mt)
	if h, ok := st.heaps[hk]; ok {
		has = h
	} else {
		has = c.d.constant("M0has_"+sanitize(typeKey(t)), hs)
		st.heaps[hk] = has
	}
	if v, ok := st.heaps[vk]; ok {
		val = v
	} else {
		val = c.d.constant("M0val_"+sanitize(typeKey(t)), vs)
		st.heaps[vk] = val
	}
	return
}

func (c *ctx) setMapHeaps(st *state, t types.Type, has, val *T) {
	hk, vk := mapKeys(t)
	st.heaps[hk] = c.name(st, "Mhas_"+sanitize(typeKey(t)), has)
	st.heaps[vk] = c.name(st, "Mval_"+sanitize(typeKey(t)), val)
}

func (x *executor) makeMap(m *machine, fr *frame, in *ssa.MakeMap) Val {
	c := x.c
	t := in.Type()
	mt := t.Underlying().(*types.Map)
	if in.Reserve != nil {
		x.val(m, fr, in.Reserve)
	}
	ref := c.freshRef(m.st)
	has, val := c.mapHeaps(m.st, t)
	ks := c.sortOf(mt.Key())
	emptyHas := app(fmt.Sprintf("(as const %s)", arraySort(ks, "Bool")), arraySort(ks, "Bool"), tFalse)
	emptyVal := app(fmt.Sprintf("(as const %s)", arraySort(ks, c.sortOf(mt.Elem()))), arraySort(ks, c.sortOf(mt.Elem())), c.zero(mt.Elem()))
	c.setMapHeaps(m.st, t, mkStore(has, ref, emptyHas), mkStore(val, ref, emptyVal))
	return Val{t: ref, typ: t}
}

func (x *executor) mapUpdate(m *machine, fr *frame, in *ssa.MapUpdate) {
	c := x.c
	mv := x.val(m, fr, in.Map)
	k := c.termOf(x.val(m, fr, in.Key))
	v := c.termOf(x.val(m, fr, in.Value))
	t := in.Map.Type()
	ref := c.termOf(mv)
	x.oblige(m, "nil", x.instrName(fr, in, "nil-map"), mkNot(mkEq(ref, refConst(0))), nil, "assignment to an entry of a map that is not nil")
	m.st.assume(mkNot(mkEq(ref, refConst(0))))
	x.checkFrameRef(m, fr, in, true, "map:"+typeKey(t), ref)
	has, val := c.mapHeaps(m.st, t)
	c.setMapHeaps(m.st, t, mkStore(has, ref, mkStore(mkSelect(has, ref), k, tTrue)), mkStore(val, ref, mkStore(mkSelect(val, ref), k, v)))
}

func (x *executor) mapGet(st *state, mv Val, k *T) (val, has *T) {
	c := x.c
	h, v := c.mapHeaps(st, mv.typ)
	ref := c.termOf(mv)
	return mkSelect(mkSelect(v, ref), k), mkSelect(mkSelect(h, ref), k)
}

func (x *executor) lookup(m *machine, fr *frame, in *ssa.Lookup) {
	c := x.c
	v := x.val(m, fr, in.X)
	if isString(in.X.Type()) {
		panic(unsupported("string index via Lookup"))
	}
	mt := in.X.Type().Underlying().(*types.Map)
	k := x.val(m, fr, in.Index)
	if v.t != nil {
		if cm, ok := gmByRef[v.t.String()]; ok {
			val, has := x.constMapLookup(cm, c.termOf(k))
			if in.CommaOk {
				fr.env[in] = Val{tup: []Val{{t: val, typ: mt.Elem()}, {t: has, typ: types.Typ[types.Bool]}}}
			} else {
				fr.env[in] = Val{t: val, typ: mt.Elem()}
			}
			return
		}
	}
	val, has := x.mapGet(m.st, Val{t: c.termOf(v), typ: in.X.Type()}, c.termOf(k))
	// a missing key (and the nil map) yields the zero value
	val = mkIte(has, val, c.zero(mt.Elem()))
	if in.CommaOk {
		fr.env[in] = Val{tup: []Val{{t: val, typ: mt.Elem()}, {t: has, typ: types.Typ[types.Bool]}}}
	} else {
		fr.env[in] = Val{t: val, typ: mt.Elem()}
	}
}

// range over a map. Two ghost arrays per Range instruction live in the state: the presence array of the map when
// the Range was executed ("rangehas:<id>") and the set of keys produced so far ("rangevis:<id>", havocked with the
// loop and constrained by invariants through visited(k)). Each Next yields either "done" or a key that is present
// and was not produced before; "done" means that - provided the presence array of the map is what it was when the
// iteration started - every present key has been produced. Termination of the iteration is not modelled, nor is a
// key that is deleted and inserted again during its own iteration.
func rangeID(in *ssa.Range) string {
	return in.Parent().String() + ":" + in.Name()
}

func (x *executor) rangeInstr(m *machine, fr *frame, in *ssa.Range) {
	mt, ok := in.X.Type().Underlying().(*types.Map)
	if !ok {
		panic(unsupported("range over a string"))
	}
	c := x.c
	v := x.val(m, fr, in.X)
	ref := c.termOf(v)
	fr.env[in] = Val{t: ref, typ: in.X.Type()}
	has, _ := c.mapHeaps(m.st, in.X.Type())
	ks := c.sortOf(mt.Key())
	id := rangeID(in)
	m.st.heaps["rangehas:"+id] = c.name(m.st, "rangehas", mkSelect(has, ref))
	m.st.heaps["rangevis:"+id] = app(fmt.Sprintf("(as const %s)", arraySort(ks, "Bool")), arraySort(ks, "Bool"), tFalse)
	x.note("range over a map: every present key is produced once provided the map's key set is unchanged by the loop; termination of the iteration is not modelled")
}

func (x *executor) nextInstr(m *machine, fr *frame, in *ssa.Next) {
	if in.IsString {
		panic(unsupported("range over a string"))
	}
	c := x.c
	rng := in.Iter.(*ssa.Range)
	mt := rng.X.Type().Underlying().(*types.Map)
	mv := fr.env[rng]
	ok := c.d.fresh("mapnext", "Bool")
	k := c.d.fresh("mapkey", c.sortOf(mt.Key()))
	m.st.assume(x.valueWF(k, mt.Key()))
	val, has := x.mapGet(m.st, Val{t: mv.t, typ: rng.X.Type()}, k)
	m.st.assume(mkImp(ok, has))
	id := rangeID(rng)
	if vis, found := m.st.heaps["rangevis:"+id]; found {
		has0 := m.st.heaps["rangehas:"+id]
		hasH, _ := c.mapHeaps(m.st, rng.X.Type())
		hasNow := mkSelect(hasH, mv.t)
		m.st.assume(mkImp(ok, mkNot(mkSelect(vis, k))))
		qcounter++
		q := atom(fmt.Sprintf("mk!%d", qcounter), c.sortOf(mt.Key()))
		all := app(fmt.Sprintf("forall ((%s %s))", q.op, q.sort), "Bool", mkImp(mkSelect(hasNow, q), mkSelect(vis, q)))
		m.st.assume(mkImp(mkAnd(mkNot(ok), mkEq(hasNow, has0)), all))
		m.st.heaps["rangevis:"+id] = c.name(m.st, "rangevis", mkIte(ok, mkStore(vis, k, tTrue), vis))
	}
	fr.env[in] = Val{tup: []Val{{t: ok, typ: types.Typ[types.Bool]}, {t: k, typ: mt.Key()}, {t: val, typ: mt.Elem()}}}
}

// mapRangeOfLoop finds the map Range whose Next sits in the loop's header block
func mapRangeOfLoop(li *loopInfo) *ssa.Range {
	if li == nil {
		return nil
	}
	for _, in := range li.header.Instrs {
		if n, ok := in.(*ssa.Next); ok && !n.IsString {
			if r, ok := n.Iter.(*ssa.Range); ok {
				return r
			}
		}
	}
	return nil
}

// havocRangeGhosts: at a loop cut the set of keys produced so far by every map iteration advanced in the loop is unknown
func (x *executor) havocRangeGhosts(st *state, li *loopInfo) {
	for b := range li.blocks {
		for _, in := range b.Instrs {
			n, ok := in.(*ssa.Next)
			if !ok || n.IsString {
				continue
			}
			r, ok := n.Iter.(*ssa.Range)
			if !ok {
				continue
			}
			key := "rangevis:" + rangeID(r)
			if old, found := st.heaps[key]; found {
				st.heaps[key] = x.c.d.fresh("rangevis", old.sort)
			}
		}
	}
}

// len(m): an uninterpreted non-negative function of the map's key set that is 0 exactly for the empty key set
func (x *executor) mapLen(st *state, v Val) *T {
	c := x.c
	mt := v.typ.Underlying().(*types.Map)
	has, _ := c.mapHeaps(st, v.typ)
	ks := c.sortOf(mt.Key())
	name := "mcard_" + sanitize(ks)
	c.d.fun(name, []string{arraySort(ks, "Bool")}, c.intSort())
	keys := mkSelect(has, c.termOf(v))
	n := app(name, c.intSort(), keys)
	intT := types.Typ[types.Int]
	st.assume(c.cmp(token.GEQ, n, c.I(0), intT))
	qcounter++
	q := atom(fmt.Sprintf("ck!%d", qcounter), ks)
	none := app(fmt.Sprintf("forall ((%s %s))", q.op, q.sort), "Bool", mkNot(mkSelect(keys, q)))
	st.assume(mkEq(mkEq(n, c.I(0)), none))
	return n
}

// mapLookupVal: m[k] in a contract (zero value where absent)
func (x *executor) mapLookupVal(st *state, mv Val, k Val) Val {
	mt := mv.typ.Underlying().(*types.Map)
	if mv.t != nil {
		if cm, ok := gmByRef[mv.t.String()]; ok {
			val, _ := x.constMapLookup(cm, x.c.termOf(k))
			return Val{t: val, typ: mt.Elem()}
		}
	}
	val, has := x.mapGet(st, mv, x.c.termOf(k))
	return Val{t: mkIte(has, val, x.c.zero(mt.Elem())), typ: mt.Elem()}
}

// mapHasVal: has(m, k) in a contract
func (x *executor) mapHasVal(st *state, mv Val, k Val) *T {
	_, has := x.mapGet(st, mv, x.c.termOf(k))
	return has
}

func (x *executor) havocMap(st *state, mt modTarget) {
	c := x.c
	has, val := c.mapHeaps(st, mt.typ)
	m := mt.typ.Underlying().(*types.Map)
	ks := c.sortOf(m.Key())
	nh := c.d.fresh("mhas", arraySort(ks, "Bool"))
	nv := c.d.fresh("mval", arraySort(ks, c.sortOf(m.Elem())))
	c.setMapHeaps(st, mt.typ, mkStore(has, mt.ref, nh), mkStore(val, mt.ref, nv))
}

func (x *executor) mapDelete(m *machine, fr *frame, in ssa.Instruction, mv, k Val, t types.Type) {
	c := x.c
	ref := c.termOf(mv)
	x.checkFrameRef(m, fr, in, true, "map:"+typeKey(t), ref)
	has, val := c.mapHeaps(m.st, t)
	mt := t.Underlying().(*types.Map)
	kt := c.termOf(k)
	// delete on a nil map is a no-op; the store at reference 0 is never read as a real map
	c.setMapHeaps(m.st, t, mkStore(has, ref, mkStore(mkSelect(has, ref), kt, tFalse)), mkStore(val, ref, mkStore(mkSelect(val, ref), kt, c.zero(mt.Elem()))))
}
