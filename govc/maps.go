package main

import (
	"go/types"

	"golang.org/x/tools/go/ssa"
)

func (x *executor) makeMap(m *machine, fr *frame, in *ssa.MakeMap) Val {
	panic(unsupported("MakeMap"))
}

func (x *executor) mapUpdate(m *machine, fr *frame, in *ssa.MapUpdate) { panic(unsupported("MapUpdate")) }

func (x *executor) lookup(m *machine, fr *frame, in *ssa.Lookup) {
	c := x.c
	v := x.val(m, fr, in.X)
	if isString(in.X.Type()) {
		panic(unsupported("string index via Lookup"))
	}
	mt := in.X.Type().Underlying().(*types.Map)
	k := x.val(m, fr, in.Index)
	if cm, ok := gmByRef[v.t.String()]; ok {
		val, has := x.constMapLookup(cm, c.termOf(k))
		if in.CommaOk {
			fr.env[in] = Val{tup: []Val{{t: val, typ: mt.Elem()}, {t: has, typ: types.Typ[types.Bool]}}}
		} else {
			fr.env[in] = Val{t: val, typ: mt.Elem()}
		}
		return
	}
	panic(unsupported("map lookup on non-constant map"))
}

func (x *executor) rangeInstr(m *machine, fr *frame, in *ssa.Range) { panic(unsupported("Range")) }
func (x *executor) nextInstr(m *machine, fr *frame, in *ssa.Next)   { panic(unsupported("Next")) }
func (x *executor) mapLen(st *state, v Val) *T                      { panic(unsupported("len(map)")) }
func (x *executor) mapLookupVal(st *state, mv Val, k Val) Val {
	mt := mv.typ.Underlying().(*types.Map)
	if cm, ok := gmByRef[mv.t.String()]; ok {
		val, _ := x.constMapLookup(cm, x.c.termOf(k))
		return Val{t: val, typ: mt.Elem()}
	}
	panic(unsupported("map index in contract"))
}
func (x *executor) havocMap(st *state, mt modTarget)                { panic(unsupported("havoc map")) }
func (x *executor) mapDelete(m *machine, fr *frame, in ssa.Instruction, mv, k Val, t types.Type) {
	panic(unsupported("delete"))
}
