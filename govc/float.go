package main

import (
	"fmt"
	"go/token"
	"go/types"
)

// Go floats are carried as their IEEE-754 bit patterns (bit-vectors); every
// floating-point predicate or operation goes through to_fp. This makes
// math.Float64bits / Float64frombits and plain copies exact, NaN payloads included.

func fpSort(w int) string {
	if w == 64 {
		return "(_ FloatingPoint 11 53)"
	}
	return "(_ FloatingPoint 8 24)"
}

func fpParams(w int) (int, int) {
	if w == 64 {
		return 11, 53
	}
	return 8, 24
}

// fromFP gives a bit pattern of the floating-point value f: fbits(f) with to_fp(fbits(f)) == f
func (x *executor) fromFP(st *state, f *T, w int) *T {
	c := x.c
	name := fmt.Sprintf("fbits%d", w)
	bs := fmt.Sprintf("(_ BitVec %d)", w)
	c.d.fun(name, []string{fpSort(w)}, bs)
	b := app(name, bs, f)
	st.assume(mkEq(fpOf(b, w), f))
	return b
}

func (x *executor) fpArith(st *state, op token.Token, a, b *T, w int) *T {
	ops := map[token.Token]string{token.ADD: "fp.add", token.SUB: "fp.sub", token.MUL: "fp.mul", token.QUO: "fp.div"}
	o, ok := ops[op]
	if !ok {
		panic(unsupported("float operator " + op.String()))
	}
	return x.fromFP(st, app(o, fpSort(w), atom("RNE", "RoundingMode"), fpOf(a, w), fpOf(b, w)), w)
}

func (x *executor) intToFloat(st *state, v *T, from types.Type, w int) *T {
	c := x.c
	_, signed, _ := intInfo(from)
	eb, sb := fpParams(w)
	var f *T
	if c.bv {
		if signed {
			f = app(fmt.Sprintf("(_ to_fp %d %d)", eb, sb), fpSort(w), atom("RNE", "RoundingMode"), v)
		} else {
			f = app(fmt.Sprintf("(_ to_fp_unsigned %d %d)", eb, sb), fpSort(w), atom("RNE", "RoundingMode"), v)
		}
	} else {
		f = app(fmt.Sprintf("(_ to_fp %d %d)", eb, sb), fpSort(w), atom("RNE", "RoundingMode"), app("to_real", "Real", v))
	}
	return x.fromFP(st, f, w)
}

func (x *executor) floatToInt(v *T, from, to types.Type) *T {
	c := x.c
	w, signed, _ := intInfo(to)
	// Go: out-of-range conversions are implementation-defined (no panic): uninterpreted total function
	name := fmt.Sprintf("f2i_%d_%d_%v", len(v.sort), w, signed)
	c.d.fun(name, []string{v.sort}, c.bvOrInt(w))
	x.note("float→integer conversion is an uninterpreted total function of the bit pattern (Go leaves out-of-range results implementation-defined)")
	return app(name, c.bvOrInt(w), v)
}

func (x *executor) floatToFloat(st *state, v *T, wf, wt int) *T {
	eb, sb := fpParams(wt)
	return x.fromFP(st, app(fmt.Sprintf("(_ to_fp %d %d)", eb, sb), fpSort(wt), atom("RNE", "RoundingMode"), fpOf(v, wf)), wt)
}

func (x *executor) floatBits(v *T, w int) *T {
	c := x.c
	if c.bv {
		return v
	}
	// int mode: integer value of the pattern
	return app("bv2nat", "Int", v)
}

func (x *executor) floatFromBits(b *T, w int) *T {
	c := x.c
	if c.bv {
		return b
	}
	// int mode: the bit pattern of a non-negative integer below 2^w (exact conversion)
	return app(fmt.Sprintf("(_ int2bv %d)", w), fmt.Sprintf("(_ BitVec %d)", w), b)
}
