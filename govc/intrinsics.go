package main

import (
	"fmt"
	"go/ast"
	"go/constant"
	"go/token"
	"go/types"
	"strings"

	"golang.org/x/tools/go/ssa"
)

var errCounter int64

func (x *executor) freshError(st *state) *T {
	c := x.c
	errCounter++
	return mkCtor(c.iface, c.iface.ctors[1], refConst(errCounter), refConst(0))
}

// isOutParamCall: calls that take pointers to locals as out-parameters and are modelled natively
func (x *executor) isOutParamCall(f *ssa.Function) bool {
	key := x.prog.funcKey(f)
	if droppedCalls[key] {
		return true
	}
	switch key {
	case "encoding/binary.Read", "encoding/binary.Write":
		return true
	}
	if fc := x.specs.funcs[key]; fc != nil && fc.trusted {
		return true
	}
	return false
}

// intrinsic handles library functions modelled natively. Returns false if key is not one.
func (x *executor) intrinsic(m *machine, fr *frame, in ssa.Instruction, res ssa.Value, key string, fn *ssa.Function, args []Val) bool {
	c := x.c
	st := m.st
	intT := types.Typ[types.Int]
	errT := types.Universe.Lookup("error").Type()
	be := strings.HasPrefix(key, "encoding/binary.(bigEndian).")
	le := strings.HasPrefix(key, "encoding/binary.(littleEndian).")
	if be || le {
		name := key[strings.LastIndex(key, ".")+1:]
		var nbytes int
		switch {
		case strings.HasSuffix(name, "16"):
			nbytes = 2
		case strings.HasSuffix(name, "32"):
			nbytes = 4
		case strings.HasSuffix(name, "64"):
			nbytes = 8
		default:
			return false
		}
		b := args[1].t
		u8 := types.Typ[types.Uint8]
		var ut types.Type
		switch nbytes {
		case 2:
			ut = types.Typ[types.Uint16]
		case 4:
			ut = types.Typ[types.Uint32]
		default:
			ut = types.Typ[types.Uint64]
		}
		x.oblige(m, "bounds", x.instrName(fr, in, "bounds"), c.cmp(token.LEQ, c.I(int64(nbytes)), c.slLen(b), intT), nil, fmt.Sprintf("binary.%s needs %d bytes", name, nbytes))
		st.assume(c.cmp(token.LEQ, c.I(int64(nbytes)), c.slLen(b), intT))
		_ = c.sortOf(u8)
		arr := mkSelect(c.arrOf(st, u8), c.slRef(b))
		byteAt := func(i int) *T {
			return mkSelect(arr, c.ix(c.slOff(b), c.I(int64(i))))
		}
		w := nbytes * 8
		if strings.HasPrefix(name, "Uint") {
			// assemble
			var r *T
			for i := 0; i < nbytes; i++ {
				pos := i
				if be {
					pos = nbytes - 1 - i
				}
				// byte i contributes at bit position 8*pos
				bt := c.convertInt(byteAt(i), u8, ut)
				var part *T
				if c.bv {
					part = app("bvshl", c.bvOrInt(w), bt, c.intConst(int64(8*pos), w))
				} else {
					part = app("*", "Int", bt, atom(pow2(8*pos).String(), "Int"))
				}
				if r == nil {
					r = part
				} else if c.bv {
					r = app("bvor", c.bvOrInt(w), r, part)
				} else {
					r = app("+", "Int", r, part)
				}
			}
			x.setResult(fr, res, []Val{{t: r, typ: ut}})
			return true
		}
		if strings.HasPrefix(name, "PutUint") {
			v := args[2].t
			x.checkFrameRef(m, fr, in, false, heapKey(u8), c.slRef(b))
			na := arr
			for i := 0; i < nbytes; i++ {
				pos := i
				if be {
					pos = nbytes - 1 - i
				}
				var bt *T
				if c.bv {
					bt = app(fmt.Sprintf("(_ extract %d %d)", 8*pos+7, 8*pos), c.bvOrInt(8), v)
				} else {
					bt = app("mod", "Int", app("div", "Int", v, atom(pow2(8*pos).String(), "Int")), atom("256", "Int"))
				}
				na = mkStore(na, c.ix(c.slOff(b), c.I(int64(i))), bt)
			}
			a := c.arrOf(st, u8)
			c.setArr(st, u8, mkStore(a, c.slRef(b), na))
			return true
		}
		return false
	}
	if x.timeIntrinsic(m, fr, in, res, key, fn, args) {
		return true
	}
	switch key {
	case "google.golang.org/protobuf/proto.Unmarshal", "github.com/golang/protobuf/proto.Unmarshal":
		x.protoUnmarshal(m, fr, in, res, args)
		return true
	case "google.golang.org/protobuf/proto.Marshal", "github.com/golang/protobuf/proto.Marshal":
		// arbitrary fresh bytes, or an error
		bt := types.NewSlice(types.Typ[types.Uint8])
		ln := c.d.fresh("marshal_len", c.intSort())
		st.assume(mkAnd(c.cmp(token.LEQ, c.I(0), ln, intT), c.cmp(token.LEQ, ln, c.I(1<<40), intT)))
		ref := c.freshRef(st)
		a := c.arrOf(st, types.Typ[types.Uint8])
		c.setArr(st, types.Typ[types.Uint8], mkStore(a, ref, c.freshArr("marshal", types.Typ[types.Uint8])))
		e := c.d.fresh("marshal_err", "Iface")
		x.externs["proto.Marshal (returns fresh bytes or an error; its inverse relation to Unmarshal is not modelled)"] = true
		x.setResult(fr, res, []Val{{t: c.mkSlice(ref, c.I(0), ln, ln), typ: bt}, {t: e, typ: errT}})
		return true
	case "errors.New":
		x.setResult(fr, res, []Val{{t: x.freshError(st), typ: errT}})
		return true
	case "fmt.Errorf":
		// the result is a non-nil error; with %w it wraps its argument (identity not tracked)
		x.setResult(fr, res, []Val{{t: x.freshError(st), typ: errT}})
		return true
	case "fmt.Sprintf", "fmt.Sprint", "fmt.Sprintln":
		x.setResult(fr, res, []Val{{t: x.sprintf(m, fr, in, key, args), typ: types.Typ[types.String]}})
		return true
	case "math.Float32bits":
		x.setResult(fr, res, []Val{{t: x.floatBits(args[0].t, 32), typ: types.Typ[types.Uint32]}})
		return true
	case "math.Float64bits":
		x.setResult(fr, res, []Val{{t: x.floatBits(args[0].t, 64), typ: types.Typ[types.Uint64]}})
		return true
	case "math.Float32frombits":
		// Float32bits(Float32frombits(b)) == b : model frombits as to_fp and record the inverse fact
		f := x.floatFromBits(args[0].t, 32)
		x.setResult(fr, res, []Val{{t: f, typ: types.Typ[types.Float32]}})
		return true
	case "math.Float64frombits":
		f := x.floatFromBits(args[0].t, 64)
		x.setResult(fr, res, []Val{{t: f, typ: types.Typ[types.Float64]}})
		return true
	case "math.IsNaN":
		x.setResult(fr, res, []Val{{t: app("fp.isNaN", "Bool", fpOf(args[0].t, 64)), typ: types.Typ[types.Bool]}})
		return true
	case "bytes.Equal":
		ev := &evaluator{x: x, st: st, pkg: x.pkg}
		bt := types.NewSlice(types.Typ[types.Uint8])
		eq := ev.seqEq(Val{t: args[0].t, typ: bt}, Val{t: args[1].t, typ: bt})
		x.setResult(fr, res, []Val{{t: eq, typ: types.Typ[types.Bool]}})
		return true
	}
	return false
}

// sprintf: an uninterpreted function of the (constant) format and the arguments
func (x *executor) sprintf(m *machine, fr *frame, in ssa.Instruction, key string, args []Val) *T {
	c := x.c
	// args[0] is the format string (for Sprintf), args[last] is the varargs slice: not decomposed.
	// Result is an arbitrary string, deterministic in the call site's visible scalar arguments.
	if key == "fmt.Sprintf" && len(args) == 2 && args[1].t != nil {
		// a constant number of arguments: the result is a deterministic function of the format and the
		// (interface-wrapped) argument values, read from the varargs array at the call
		va := args[1].t
		if n, ok := numeralValue(c.slLen(va)); ok && n.IsInt64() && n.Int64() >= 0 && n.Int64() <= 6 {
			var et types.Type = types.NewInterfaceType(nil, nil)
			if sl, ok := args[1].typ.Underlying().(*types.Slice); ok {
				et = sl.Elem()
			}
			arr := mkSelect(c.arrOf(m.st, et), c.slRef(va))
			ts := []*T{c.termOf(args[0])}
			for k := int64(0); k < n.Int64(); k++ {
				ts = append(ts, mkSelect(arr, c.ix(c.slOff(va), c.I(k))))
			}
			return c.sprintfTerm(ts)
		}
	}
	r := c.d.fresh("sprintf", "Str")
	m.st.assume(x.valueWF(r, types.Typ[types.String]))
	return r
}

// sprintfTerm: sprintf_n(format, a1..an) as an uninterpreted function over interface values
func (c *ctx) sprintfTerm(ts []*T) *T {
	name := fmt.Sprintf("sprintf_%d", len(ts)-1)
	sorts := []string{"Str"}
	for range ts[1:] {
		sorts = append(sorts, "Iface")
	}
	c.d.fun(name, sorts, "Str")
	return app(name, "Str", ts...)
}

// builtinSpec: contract-level helper functions that need executor knowledge
func (x *executor) builtinSpec(ev *evaluator, name string, args []Expr) Val {
	ev.fail("unknown builtin %s", name)
	return Val{}
}

// ---- maps (minimal: constant global maps; general maps in maps.go) ---------------

type constMap struct {
	keys   []constant.Value
	vals   []constant.Value
	kt, vt types.Type
}

var constMaps = map[string]*constMap{}

// globalMap recognises package-level map variables initialised by a composite literal
// of constants and never written afterwards.
func (x *executor) globalMap(st *state, o *types.Var) Val {
	key := o.Pkg().Path() + "." + o.Name()
	cm, ok := constMaps[key]
	if !ok {
		cm = x.findConstMap(o)
		constMaps[key] = cm
	}
	if cm == nil {
		panic(unsupported("global map " + key + " is not a constant literal"))
	}
	// represent as a reference with a known id; lookups consult constMaps via the id
	id := int64(5000000 + len(x.globals))
	if t, ok := x.globals[key]; ok {
		return Val{t: t, typ: o.Type()}
	}
	t := refConst(id)
	x.globals[key] = t
	x.globalMapByRef()[fmt.Sprint(id)] = cm
	return Val{t: t, typ: o.Type()}
}

var gmByRef = map[string]*constMap{}

func (x *executor) globalMapByRef() map[string]*constMap { return gmByRef }

func (x *executor) findConstMap(o *types.Var) *constMap {
	for _, pp := range x.prog.ppkgs {
		if pp.Types != o.Pkg() {
			continue
		}
		// writes to the global outside init?
		sp := x.prog.spkgs[o.Pkg().Name()]
		if sp != nil {
			g, _ := sp.Members[o.Name()].(*ssa.Global)
			if g != nil {
				for _, mem := range sp.Members {
					f, ok := mem.(*ssa.Function)
					if !ok || f.Name() == "init" {
						continue
					}
					if fnWritesGlobal(f, g) {
						return nil
					}
				}
			}
		}
		for _, f := range pp.Syntax {
			for _, d := range f.Decls {
				gd, ok := d.(*ast.GenDecl)
				if !ok || gd.Tok != token.VAR {
					continue
				}
				for _, s := range gd.Specs {
					vs := s.(*ast.ValueSpec)
					for i, n := range vs.Names {
						if pp.TypesInfo.Defs[n] != o || i >= len(vs.Values) {
							continue
						}
						cl, ok := vs.Values[i].(*ast.CompositeLit)
						if !ok {
							return nil
						}
						mt := o.Type().Underlying().(*types.Map)
						cm := &constMap{kt: mt.Key(), vt: mt.Elem()}
						for _, e := range cl.Elts {
							kv := e.(*ast.KeyValueExpr)
							ktv := pp.TypesInfo.Types[kv.Key]
							vtv := pp.TypesInfo.Types[kv.Value]
							if ktv.Value == nil || vtv.Value == nil {
								return nil
							}
							cm.keys = append(cm.keys, ktv.Value)
							cm.vals = append(cm.vals, vtv.Value)
						}
						return cm
					}
				}
			}
		}
	}
	return nil
}

func fnWritesGlobal(f *ssa.Function, g *ssa.Global) bool {
	for _, b := range f.Blocks {
		for _, in := range b.Instrs {
			switch in := in.(type) {
			case *ssa.Store:
				if in.Addr == g {
					return true
				}
			case *ssa.MapUpdate:
				if ld, ok := in.Map.(*ssa.UnOp); ok && ld.X == g {
					return true
				}
			}
		}
	}
	for _, af := range f.AnonFuncs {
		if fnWritesGlobal(af, g) {
			return true
		}
	}
	return false
}

func (x *executor) constMapLookup(cm *constMap, k *T) (val *T, has *T) {
	c := x.c
	val = c.zero(cm.vt)
	has = tFalse
	for i := len(cm.keys) - 1; i >= 0; i-- {
		kt := c.constTerm(cm.keys[i], cm.kt)
		eq := mkEq(k, kt)
		val = mkIte(eq, c.constTerm(cm.vals[i], cm.vt), val)
		has = mkOr(eq, has)
	}
	return
}

// protoUnmarshal: proto.Unmarshal(b, m) overwrites the message m points to with an arbitrary
// well-formed message of the same Go type, or returns an error. Well-formed (trusted fact about
// generated protobuf code): elements of repeated message fields are never nil.
func (x *executor) protoUnmarshal(m *machine, fr *frame, in ssa.Instruction, res ssa.Value, args []Val) {
	c := x.c
	st := m.st
	errT := types.Universe.Lookup("error").Type()
	msg := args[1].t.un()
	var mt types.Type
	for k, ct := range c.ifaceCtors {
		if msg.op == ct.name {
			mt = c.ifaceTypes[k]
		}
	}
	pt, ok := mt.(*types.Pointer)
	if mt == nil || !ok {
		panic(unsupported("proto.Unmarshal into a message whose dynamic type is not syntactically known"))
	}
	ref := msg.args[0]
	x.checkFrameRef(m, fr, in, true, heapKey(pt.Elem()), ref)
	nn := mkNot(mkEq(ref, refConst(0)))
	x.oblige(m, "nil", x.instrName(fr, in, "nil"), nn, nil, "message pointer is not nil")
	nv := c.d.fresh("unmarshalled", c.sortOf(pt.Elem()))
	// like an input: sizes bounded by the address space, references to memory outside this call's allocations
	st.assume(c.valueWF(nv, pt.Elem()))
	st.assume(c.inputWF(nv, pt.Elem()))
	c.setHeap(st, pt.Elem(), mkStore(c.heapOf(st, pt.Elem()), ref, nv))
	// well-formedness of decoded messages (to depth 3): repeated message fields have no nil elements
	st.assume(x.pbMsgWF(st, nv, pt.Elem(), 3))
	x.externs["proto.Unmarshal (overwrites the message with an arbitrary well-formed message of its type, repeated message fields have no nil elements; or returns an error)"] = true
	e := c.d.fresh("unmarshal_err", "Iface")
	x.setResult(fr, res, []Val{{t: e, typ: errT}})
}

// pbMsgWF: facts about a decoded protobuf message value v of struct type t: elements of repeated
// message fields are non-nil and (recursively, to the given depth) well-formed; singular message
// fields are nil or well-formed.
func (x *executor) pbMsgWF(st *state, v *T, t types.Type, depth int) *T {
	c := x.c
	su, ok := t.Underlying().(*types.Struct)
	if !ok || depth == 0 {
		return tTrue
	}
	si := c.structOf(t)
	intT := types.Typ[types.Int]
	var facts []*T
	isMsg := func(pt types.Type) (types.Type, bool) {
		p, ok := pt.Underlying().(*types.Pointer)
		if !ok {
			return nil, false
		}
		if _, ok := p.Elem().Underlying().(*types.Struct); !ok {
			return nil, false
		}
		if n, ok := types.Unalias(p.Elem()).(*types.Named); ok && n.Obj().Pkg() != nil && strings.HasSuffix(n.Obj().Pkg().Path(), "/pb") {
			return p.Elem(), true
		}
		return nil, false
	}
	for i := 0; i < su.NumFields(); i++ {
		ft := su.Field(i).Type()
		fv := mkSel(si.ctor, i, v)
		if mt, ok := isMsg(ft); ok {
			inner := x.pbMsgWF(st, mkSelect(c.heapOf(st, mt), fv), mt, depth-1)
			facts = append(facts, mkImp(mkNot(mkEq(fv, refConst(0))), inner))
			continue
		}
		sl, ok := ft.Underlying().(*types.Slice)
		if !ok {
			continue
		}
		p, isPtr := sl.Elem().Underlying().(*types.Pointer)
		if !isPtr {
			continue
		}
		qcounter++
		k := atom(fmt.Sprintf("k!%d", qcounter), c.intSort())
		el := mkSelect(mkSelect(c.arrOf(st, sl.Elem()), c.slRef(fv)), c.ix(c.slOff(fv), k))
		elemFacts := []*T{mkNot(mkEq(el, refConst(0)))}
		if mt, ok := isMsg(sl.Elem()); ok {
			elemFacts = append(elemFacts, x.pbMsgWF(st, mkSelect(c.heapOf(st, mt), el), mt, depth-1))
		}
		_ = p
		body := mkImp(mkAnd(c.cmp(token.LEQ, c.I(0), k, intT), c.cmp(token.LSS, k, c.slLen(fv), intT)), mkAnd(elemFacts...))
		body = withTriggers(body, []string{k.op})
		facts = append(facts, app(fmt.Sprintf("forall ((%s %s))", k.op, k.sort), "Bool", body))
	}
	return mkAnd(facts...)
}
