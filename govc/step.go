package main

import (
	"fmt"
	"go/constant"
	"go/token"
	"go/types"
	"os"
	"strings"

	"golang.org/x/tools/go/ssa"
)

func osReadFile(f string) ([]byte, error) { return os.ReadFile(f) }

// value of an SSA operand in a frame
func (x *executor) val(m *machine, fr *frame, v ssa.Value) Val {
	c := x.c
	switch v := v.(type) {
	case *ssa.Const:
		t := v.Type()
		if v.Value == nil {
			// nil / zero
			if b, ok := t.(*types.Basic); ok && b.Kind() == types.UntypedNil {
				return Val{t: refConst(0), typ: t}
			}
			return Val{t: c.zero(t), typ: t}
		}
		return Val{t: c.constTerm(v.Value, t), typ: t}
	case *ssa.Function:
		return Val{fn: &FnVal{fn: v}, typ: v.Type()}
	case *ssa.Global:
		// address of a global: executor-level pointer to a global cell
		return x.globalAddr(m.st, v)
	case *ssa.Builtin:
		return Val{fn: &FnVal{}, typ: v.Type()}
	}
	if r, ok := fr.env[v]; ok {
		return r
	}
	panic(fmt.Sprintf("%s: value %s (%T) not defined on this path", fr.key, v.Name(), v))
}

func (x *executor) term(m *machine, fr *frame, v ssa.Value) *T {
	return x.c.termOf(x.val(m, fr, v))
}

func (x *executor) step(m *machine, fr *frame, in ssa.Instruction) {
	c := x.c
	st := m.st
	intT := types.Typ[types.Int]
	switch in := in.(type) {
	case *ssa.DebugRef:
		return
	case *ssa.Alloc:
		et := in.Type().Underlying().(*types.Pointer).Elem()
		cell := x.newCell(in, in.Comment, et)
		fr.cells[in] = cell
		st.cells[cell] = Val{t: c.zero(et), typ: et}
		if in.Heap && x.allocEscapes(in) {
			// escaping allocation: lives in the object heap under a fresh reference
			ref := c.freshRef(st)
			p := &Ptr{kind: pkHeap, ref: ref, base: et}
			c.store(st, p, Val{t: c.zero(et), typ: et})
			delete(fr.cells, in)
			delete(st.cells, cell)
			fr.env[in] = Val{ptr: p, typ: in.Type()}
			return
		}
		fr.env[in] = Val{ptr: &Ptr{kind: pkCell, cell: cell, base: et}, typ: in.Type()}
	case *ssa.Store:
		p := c.ptrOf(x.val(m, fr, in.Addr))
		x.checkDeref(m, fr, in, p)
		v := x.val(m, fr, in.Val)
		x.checkFrame(m, fr, in, p)
		c.store(st, p, v)
	case *ssa.UnOp:
		x.unop(m, fr, in)
	case *ssa.BinOp:
		x.binop(m, fr, in)
	case *ssa.FieldAddr:
		p := c.ptrOf(x.val(m, fr, in.X))
		x.checkDeref(m, fr, in, p)
		stt := in.X.Type().Underlying().(*types.Pointer).Elem().Underlying().(*types.Struct)
		np := p.extend(pathEl{field: in.Field, typ: stt.Field(in.Field).Type()})
		fr.env[in] = Val{ptr: np, typ: in.Type()}
	case *ssa.Field:
		v := x.val(m, fr, in.X)
		si := c.structOf(in.X.Type())
		fr.env[in] = Val{t: mkSel(si.ctor, in.Field, v.t), typ: in.Type()}
	case *ssa.IndexAddr:
		idx := x.toIntTerm(m, fr, in.Index)
		switch u := in.X.Type().Underlying().(type) {
		case *types.Slice:
			s := x.term(m, fr, in.X)
			x.oblige(m, "bounds", x.instrName(fr, in, "bounds"), mkAnd(c.cmp(token.LEQ, c.I(0), idx, intT), c.cmp(token.LSS, idx, c.slLen(s), intT)), nil, "index in range")
			abs := c.ix(c.slOff(s), idx)
			fr.env[in] = Val{ptr: &Ptr{kind: pkElem, ref: c.slRef(s), idx: abs, base: u.Elem()}, typ: in.Type()}
		case *types.Pointer:
			at := u.Elem().Underlying().(*types.Array)
			p := c.ptrOf(x.val(m, fr, in.X))
			x.checkDeref(m, fr, in, p)
			x.oblige(m, "bounds", x.instrName(fr, in, "bounds"), mkAnd(c.cmp(token.LEQ, c.I(0), idx, intT), c.cmp(token.LSS, idx, c.I(at.Len()), intT)), nil, "index in range")
			fr.env[in] = Val{ptr: p.extend(pathEl{isIdx: true, idx: idx, typ: at.Elem()}), typ: in.Type()}
		default:
			panic(unsupported("IndexAddr on " + in.X.Type().String()))
		}
	case *ssa.Index:
		idx := x.toIntTerm(m, fr, in.Index)
		v := x.val(m, fr, in.X)
		switch u := in.X.Type().Underlying().(type) {
		case *types.Array:
			x.oblige(m, "bounds", x.instrName(fr, in, "bounds"), mkAnd(c.cmp(token.LEQ, c.I(0), idx, intT), c.cmp(token.LSS, idx, c.I(u.Len()), intT)), nil, "index in range")
			fr.env[in] = Val{t: mkSelect(v.t, idx), typ: in.Type()}
		case *types.Basic:
			ln := app("slen", c.intSort(), v.t)
			x.oblige(m, "bounds", x.instrName(fr, in, "bounds"), mkAnd(c.cmp(token.LEQ, c.I(0), idx, intT), c.cmp(token.LSS, idx, ln, intT)), nil, "index in range")
			fr.env[in] = Val{t: app("sbyte", c.bvOrInt(8), v.t, idx), typ: in.Type()}
		default:
			panic(unsupported("Index on " + in.X.Type().String()))
		}
	case *ssa.Slice:
		x.sliceInstr(m, fr, in)
	case *ssa.MakeSlice:
		ln := x.toIntTerm(m, fr, in.Len)
		cp := x.toIntTerm(m, fr, in.Cap)
		x.oblige(m, "neg-len", x.instrName(fr, in, "neg-len"), mkAnd(c.cmp(token.LEQ, c.I(0), ln, intT), c.cmp(token.LEQ, ln, cp, intT), c.cmp(token.LEQ, cp, c.I(1<<47), intT)), nil, "make: 0 <= len <= cap <= 2^47")
		et := in.Type().Underlying().(*types.Slice).Elem()
		fr.env[in] = Val{t: x.allocSlice(st, et, ln, cp), typ: in.Type()}
	case *ssa.Convert:
		fr.env[in] = x.convert(m, fr, in, x.val(m, fr, in.X), in.X.Type(), in.Type())
	case *ssa.ChangeType:
		v := x.val(m, fr, in.X)
		v.typ = in.Type()
		fr.env[in] = v
	case *ssa.ChangeInterface:
		v := x.val(m, fr, in.X)
		v.typ = in.Type()
		fr.env[in] = v
	case *ssa.MakeInterface:
		v := x.val(m, fr, in.X)
		fr.env[in] = Val{t: c.mkIface(in.X.Type(), c.termOf(v)), typ: in.Type()}
	case *ssa.TypeAssert:
		x.typeAssert(m, fr, in)
	case *ssa.Extract:
		tv := x.val(m, fr, in.Tuple)
		fr.env[in] = tv.tup[in.Index]
	case *ssa.Phi:
		for i, p := range fr.block.Preds {
			if p == fr.pred {
				fr.env[in] = x.val(m, fr, in.Edges[i])
				return
			}
		}
		panic("phi: predecessor not found")
	case *ssa.MakeClosure:
		var bs []Val
		for _, b := range in.Bindings {
			bs = append(bs, x.val(m, fr, b))
		}
		fn := in.Fn.(*ssa.Function)
		fv := &FnVal{fn: fn, bindings: bs}
		fr.env[in] = Val{fn: fv, typ: in.Type()}
	case *ssa.Call:
		x.call(m, fr, in, in.Common(), in)
	case *ssa.Defer:
		var args []Val
		for _, a := range in.Call.Args {
			args = append(args, x.val(m, fr, a))
		}
		var fv Val
		if !in.Call.IsInvoke() {
			fv = x.val(m, fr, in.Call.Value)
		} else {
			fv = x.val(m, fr, in.Call.Value)
		}
		fr.defers = append(fr.defers, &deferredCall{call: &in.Call, fn: fv, args: args, instr: in})
	case *ssa.RunDefers:
		if len(fr.defers) > 0 {
			d := fr.defers[len(fr.defers)-1]
			fr.defers = fr.defers[:len(fr.defers)-1]
			fr.idx-- // come back here after the deferred call
			x.callValues(m, fr, d.instr, d.call, nil, d.fn, d.args)
		}
	case *ssa.Return:
		var rs []Val
		for _, r := range in.Results {
			rs = append(rs, x.val(m, fr, r))
		}
		x.doReturn(m, fr, rs)
	case *ssa.If:
		cond := x.term(m, fr, in.Cond)
		tb, fb := fr.block.Succs[0], fr.block.Succs[1]
		if isTrue(cond) {
			x.jump(fr, tb)
			return
		}
		if isFalse(cond) {
			x.jump(fr, fb)
			return
		}
		m2 := m.clone()
		m2.st.assume(mkNot(cond))
		x.jump(m2.top(), fb)
		x.work = append(x.work, m2)
		st.assume(cond)
		x.jump(fr, tb)
	case *ssa.Jump:
		x.jump(fr, fr.block.Succs[0])
	case *ssa.Panic:
		x.oblige(m, "unreachable", x.instrName(fr, in, "panic"), tFalse, nil, "panic is unreachable")
		x.endPath()
	case *ssa.MakeMap:
		fr.env[in] = x.makeMap(m, fr, in)
	case *ssa.MakeChan:
		// a channel is an opaque fresh reference; send, receive, close and select are not modelled (unsupported)
		x.val(m, fr, in.Size)
		fr.env[in] = Val{t: x.c.freshRef(m.st), typ: in.Type()}
	case *ssa.MapUpdate:
		x.mapUpdate(m, fr, in)
	case *ssa.Lookup:
		x.lookup(m, fr, in)
	case *ssa.Range:
		x.rangeInstr(m, fr, in)
	case *ssa.Next:
		x.nextInstr(m, fr, in)
	case *ssa.Go:
		// the spawned goroutine is not modelled: its arguments are evaluated, its effects are outside the contract
		for _, a := range in.Call.Args {
			x.val(m, fr, a)
		}
		x.note("go statement: the spawned goroutine (" + in.Call.Value.Name() + ") is not modelled; it is assumed not to write memory the function's contract speaks about")
	case *ssa.Send:
		// channels are opaque: a send delivers its value to some other goroutine, which is not modelled
		x.val(m, fr, in.Chan)
		x.val(m, fr, in.X)
		x.note("channel operations are opaque: a send has no effect on the verified state, a receive (also in a select) yields an arbitrary value of the element type, which case of a select fires is arbitrary; blocking and deadlock are not modelled")
	case *ssa.Select:
		x.selectInstr(m, fr, in)
	default:
		panic(unsupported(fmt.Sprintf("instruction %T: %s", in, in.String())))
	}
}

// allocEscapes: does the address of this heap-allocated variable need to be a term?
// (returned, stored into memory, converted to an interface, or passed to a non-inlined call)
func (x *executor) allocEscapes(a *ssa.Alloc) bool {
	return x.addrEscapes(a, 0)
}

// addrEscapes: does the address v (an alloc, or a field/element address derived from one) need to be a term?
func (x *executor) addrEscapes(v ssa.Value, depth int) bool {
	refs := v.Referrers()
	if refs == nil || depth > 8 {
		return true
	}
	for _, r := range *refs {
		switch r := r.(type) {
		case *ssa.Store:
			if r.Val == v {
				return true
			}
		case *ssa.FieldAddr:
			if x.addrEscapes(r, depth+1) {
				return true
			}
		case *ssa.IndexAddr:
			if r.X == v && x.addrEscapes(r, depth+1) {
				return true
			}
		case *ssa.UnOp, *ssa.DebugRef:
		case *ssa.MakeClosure:
		case *ssa.Return, *ssa.MakeInterface, *ssa.Phi, *ssa.MapUpdate, *ssa.Send:
			return true
		case ssa.CallInstruction:
			// pointer passed as argument or receiver
			com := r.Common()
			if f := com.StaticCallee(); f != nil && x.isInlined(f) {
				continue
			}
			if f := com.StaticCallee(); f != nil && x.isOutParamCall(f) {
				continue
			}
			return true
		default:
			if depth > 0 {
				// uses of a derived address other than loads/stores through it (slicing, conversion, ...)
				if _, ok := r.(*ssa.Slice); ok {
					continue
				}
			}
			return true
		}
	}
	return false
}

func (x *executor) toIntTerm(m *machine, fr *frame, v ssa.Value) *T {
	val := x.val(m, fr, v)
	return x.c.convertInt(val.t, v.Type(), types.Typ[types.Int])
}

func (x *executor) allocSlice(st *state, et types.Type, ln, cp *T) *T {
	c := x.c
	ref := c.freshRef(st)
	es := c.sortOf(et)
	a := c.arrOf(st, et)
	zeroArr := app("(as const "+arraySort(c.intSort(), es)+")", arraySort(c.intSort(), es), c.zero(et))
	c.setArr(st, et, mkStore(a, ref, zeroArr))
	return c.mkSlice(ref, c.I(0), ln, cp)
}

func (x *executor) checkDeref(m *machine, fr *frame, in ssa.Instruction, p *Ptr) {
	if p.kind == pkHeap && len(p.path) == 0 {
		nn := x.c.ptrNonNil(p)
		if !isTrue(nn) {
			x.oblige(m, "nil", x.instrName(fr, in, "nil"), nn, nil, "pointer is not nil")
			m.st.assume(nn)
		}
	}
}

// checkFrame: a store to heap memory must be within the declared modifies sets
func (x *executor) checkFrame(m *machine, fr *frame, in ssa.Instruction, p *Ptr) {
	if p.kind == pkCell {
		return
	}
	x.checkFrameRef(m, fr, in, p.kind == pkHeap, heapKey(p.base), p.ref)
}

func (x *executor) checkFrameRef(m *machine, fr *frame, in ssa.Instruction, heap bool, sort string, ref *T) {
	if ref == nil {
		return
	}
	// fresh (negative numeral) references allocated on this path are always writable at function level
	allowed := func(set []modTarget, mark *T) *T {
		var alts []*T
		// allocated after mark
		// the nil reference is never a real region: "writing" to it is vacuous
		alts = append(alts, mkEq(ref, refConst(0)))
		lt := app("<", "Bool", ref, mark)
		if a, ok := numeralValue(ref); ok {
			if b, ok2 := numeralValue(mark); ok2 {
				lt = tFalse
				if a.Cmp(b) < 0 {
					lt = tTrue
				}
			}
		}
		alts = append(alts, lt)
		for _, mt := range set {
			if mt.heap == heap && mt.sort == sort {
				if mt.all {
					alts = append(alts, tTrue)
					continue
				}
				alts = append(alts, mkEq(ref, mt.ref))
			}
		}
		return mkOr(alts...)
	}
	ownAlloc := false
	if v, ok := numeralValue(ref); ok && v.Sign() < 0 {
		ownAlloc = true // allocated by this call: always writable at function level
	}
	if !ownAlloc {
		g := allowed(x.modSet, refConst(0))
		x.oblige(m, "frame", x.instrName(fr, in, "frame"), g, nil, "store target is in the function's modifies clause")
	}
	// enclosing loops (of every frame on the stack) that are still being executed
	for _, f := range m.stack {
		for _, lr := range f.active {
			if !lr.li.blocks[f.block] {
				continue
			}
			g := allowed(lr.modRefs, lr.allocMark)
			if !isTrue(g) {
				x.oblige(m, "frame", x.instrName(fr, in, "frame")+"@loop"+lr.lc.key, g, nil, "store target is in the loop's modifies clause")
			}
		}
	}
}

func (x *executor) unop(m *machine, fr *frame, in *ssa.UnOp) {
	c := x.c
	switch in.Op {
	case token.MUL: // load
		p := c.ptrOf(x.val(m, fr, in.X))
		x.checkDeref(m, fr, in, p)
		v := c.load(m.st, p)
		if p.kind != pkCell && v.t != nil {
			m.st.assume(x.valueWF(v.t, v.typ))
			x.assumeInitialWF(m.st, p)
		}
		if v.typ == nil {
			v.typ = in.Type()
		}
		fr.env[in] = v
	case token.NOT:
		fr.env[in] = Val{t: mkNot(x.term(m, fr, in.X)), typ: in.Type()}
	case token.SUB:
		v := x.val(m, fr, in.X)
		if w, ok := isFloat(in.Type()); ok {
			fr.env[in] = Val{t: x.fromFP(m.st, app("fp.neg", fpSort(w), fpOf(v.t, w)), w), typ: in.Type()}
			return
		}
		var ovf []overflowCheck
		r := c.neg(v.t, in.Type(), &ovf)
		x.overflowObls(m, fr, in, ovf)
		fr.env[in] = Val{t: r, typ: in.Type()}
	case token.XOR:
		v := x.val(m, fr, in.X)
		fr.env[in] = Val{t: c.bitnot(v.t, in.Type()), typ: in.Type()}
	case token.ARROW:
		// receive: an arbitrary value of the element type (channels are opaque)
		x.val(m, fr, in.X)
		et := in.X.Type().Underlying().(*types.Chan).Elem()
		v := x.arbitrary(m, "recv", et)
		if in.CommaOk {
			fr.env[in] = Val{tup: []Val{v, {t: c.d.fresh("recvok", "Bool"), typ: types.Typ[types.Bool]}}}
		} else {
			fr.env[in] = v
		}
		x.note("channel operations are opaque: a send has no effect on the verified state, a receive (also in a select) yields an arbitrary value of the element type, which case of a select fires is arbitrary; blocking and deadlock are not modelled")
	default:
		panic(unsupported("unary op " + in.Op.String()))
	}
}

// assumeInitialWF: instance of "the initial heap holds only non-negative references"
func (x *executor) assumeInitialWF(st *state, p *Ptr) {
	c := x.c
	var root *T
	switch p.kind {
	case pkHeap:
		root = mkSelect(c.heap0(p.base), p.ref)
	case pkElem:
		root = mkSelect(mkSelect(c.arr0(p.base), p.ref), p.idx)
	default:
		return
	}
	t := c.applyPath(root, p.base, p.path)
	w := c.inputWF(t, p.elemType())
	// only memory that existed before the call (non-negative references) is "initial"
	st.assume(mkImp(app(">=", "Bool", p.ref, refConst(0)), w))
}

func (x *executor) overflowObls(m *machine, fr *frame, in ssa.Instruction, ovf []overflowCheck) {
	for _, o := range ovf {
		if x.fc != nil && x.mathIntFor(x.instrName(fr, in, "overflow")) {
			// `option mathint=<text>`: the 64-bit arithmetic of statements whose text contains <text> is treated as
			// mathematical (a stated assumption, e.g. a counter that is incremented once per sync)
			x.note("64-bit integer arithmetic of " + x.key + " is treated as mathematical (option mathint): overflow of " + x.instrName(fr, in, "overflow") + " is assumed not to happen")
			m.st.assume(o.cond)
			continue
		}
		x.oblige(m, "overflow", x.instrName(fr, in, "overflow"), o.cond, nil, "64-bit arithmetic does not overflow")
		m.st.assume(o.cond)
	}
}

func (x *executor) binop(m *machine, fr *frame, in *ssa.BinOp) {
	c := x.c
	a := x.val(m, fr, in.X)
	b := x.val(m, fr, in.Y)
	xt := in.X.Type()
	switch in.Op {
	case token.EQL, token.NEQ, token.LSS, token.LEQ, token.GTR, token.GEQ:
		fr.env[in] = Val{t: x.compareVals(m, in.Op, a, b, xt, in.Y.Type()), typ: in.Type()}
		return
	case token.SHL, token.SHR:
		if wy, sy, ok := intInfo(in.Y.Type()); ok && sy {
			if _, isConst := in.Y.(*ssa.Const); !isConst {
				nn := c.cmp(token.GEQ, b.t, c.intConst(0, wy), in.Y.Type())
				x.oblige(m, "neg-shift", x.instrName(fr, in, "neg-shift"), nn, nil, "shift count is not negative")
				m.st.assume(nn)
			}
		}
		fr.env[in] = Val{t: c.shift(in.Op, a.t, b.t, xt, in.Y.Type()), typ: in.Type()}
		return
	}
	if w, ok := isFloat(xt); ok {
		fr.env[in] = Val{t: x.fpArith(m.st, in.Op, a.t, b.t, w), typ: in.Type()}
		return
	}
	if isString(xt) && in.Op == token.ADD {
		fr.env[in] = Val{t: app("sconcat", "Str", a.t, b.t), typ: in.Type()}
		return
	}
	if in.Op == token.QUO || in.Op == token.REM {
		w, _, _ := intInfo(xt)
		x.oblige(m, "div0", x.instrName(fr, in, "div0"), mkNot(mkEq(b.t, c.intConst(0, w))), nil, "divisor is not zero")
	}
	var ovf []overflowCheck
	r := c.arith(in.Op, a.t, b.t, xt, &ovf)
	x.overflowObls(m, fr, in, ovf)
	fr.env[in] = Val{t: x.nameIfBig(m.st, in.Name(), r), typ: in.Type()}
}

// nameIfBig introduces a named constant for a large term (keeps VCs small and shareable)
func (x *executor) nameIfBig(st *state, hint string, t *T) *T {
	if t.bit != nil || t.size(10) <= 9 {
		return t
	}
	n := x.c.name(st, "v_"+hint, t)
	return n
}

func (x *executor) compareVals(m *machine, op token.Token, a, b Val, at, bt types.Type) *T {
	c := x.c
	switch u := at.Underlying().(type) {
	case *types.Pointer:
		// pointer comparison
		pa, pb := a, b
		var ta, tb *T
		ta = x.ptrTerm(pa)
		tb = x.ptrTerm(pb)
		if ta == nil || tb == nil {
			// comparison of a stack pointer with nil
			if ta == nil && tb != nil {
				ta, tb = tb, ta
			}
			// stack pointers are never nil
			r := tFalse
			if op == token.NEQ {
				r = tTrue
			}
			return r
		}
		if op == token.EQL {
			return mkEq(ta, tb)
		}
		return mkNot(mkEq(ta, tb))
	case *types.Slice:
		// only comparison with nil
		s := a.t
		if isNilConst(a) {
			s = b.t
		}
		r := mkEq(c.slRef(s), refConst(0))
		if op == token.NEQ {
			return mkNot(r)
		}
		return r
	case *types.Interface:
		ta, tb := c.termOf(a), c.termOf(b)
		if isNilConst(b) {
			tb = atom("i-nil", "Iface")
		}
		if isNilConst(a) {
			ta = atom("i-nil", "Iface")
		}
		r := mkEq(ta, tb)
		if op == token.NEQ {
			return mkNot(r)
		}
		return r
	case *types.Signature, *types.Map, *types.Chan:
		var ta, tb *T
		if a.fn != nil || b.fn != nil {
			// comparison of function value with nil
			fv := a
			if a.fn == nil {
				fv = b
			}
			_ = fv
			r := tFalse // a concrete function value is never nil
			if op == token.NEQ {
				r = tTrue
			}
			return r
		}
		ta, tb = a.t, b.t
		r := mkEq(ta, tb)
		if op == token.NEQ {
			return mkNot(r)
		}
		return r
	case *types.Basic:
		if u.Kind() == types.UntypedNil {
			return x.compareVals(m, op, b, a, bt, at)
		}
	}
	return c.cmp(op, c.termOf(a), c.termOf(b), at)
}

func isNilConst(v Val) bool {
	if v.typ == nil {
		return false
	}
	if b, ok := v.typ.(*types.Basic); ok && b.Kind() == types.UntypedNil {
		return true
	}
	return false
}

func (x *executor) ptrTerm(v Val) *T {
	if v.ptr != nil {
		if v.ptr.kind == pkHeap && len(v.ptr.path) == 0 {
			return v.ptr.ref
		}
		return nil
	}
	return v.t
}

func (x *executor) convert(m *machine, fr *frame, in ssa.Instruction, v Val, from, to types.Type) Val {
	c := x.c
	_, _, fi := intInfo(from)
	_, _, ti := intInfo(to)
	if fi && ti {
		return Val{t: c.convertInt(v.t, from, to), typ: to}
	}
	wf, ff := isFloat(from)
	wt, tf := isFloat(to)
	switch {
	case fi && tf:
		return Val{t: x.intToFloat(m.st, v.t, from, wt), typ: to}
	case ff && ti:
		return Val{t: x.floatToInt(v.t, from, to), typ: to}
	case ff && tf:
		if wf == wt {
			return Val{t: v.t, typ: to}
		}
		return Val{t: x.floatToFloat(m.st, v.t, wf, wt), typ: to}
	}
	// string <-> []byte
	if isString(from) {
		if sl, ok := to.Underlying().(*types.Slice); ok {
			if w, _, ok := intInfo(sl.Elem()); ok && w == 8 {
				return Val{t: x.stringToBytes(m.st, v.t), typ: to}
			}
		}
		if isString(to) {
			return Val{t: v.t, typ: to}
		}
	}
	if sl, ok := from.Underlying().(*types.Slice); ok && isString(to) {
		if w, _, ok := intInfo(sl.Elem()); ok && w == 8 {
			return Val{t: x.bytesToString(m.st, v.t), typ: to}
		}
	}
	if fi && isString(to) {
		// string(rune): uninterpreted
		c.d.fun("runeToStr", []string{v.t.sort}, "Str")
		return Val{t: app("runeToStr", "Str", v.t), typ: to}
	}
	if _, ok := from.Underlying().(*types.Pointer); ok {
		if b, ok := to.Underlying().(*types.Basic); ok && b.Kind() == types.UnsafePointer {
			panic(unsupported("unsafe.Pointer conversion"))
		}
	}
	panic(unsupported(fmt.Sprintf("conversion %s -> %s", from, to)))
}

func (x *executor) sliceInstr(m *machine, fr *frame, in *ssa.Slice) {
	c := x.c
	st := m.st
	intT := types.Typ[types.Int]
	name := x.instrName(fr, in, "bounds")
	lo := c.I(0)
	if in.Low != nil {
		lo = x.toIntTerm(m, fr, in.Low)
	}
	le := func(a, b *T) *T { return c.cmp(token.LEQ, a, b, intT) }
	switch u := in.X.Type().Underlying().(type) {
	case *types.Slice:
		s := x.term(m, fr, in.X)
		hi := c.slLen(s)
		if in.High != nil {
			hi = x.toIntTerm(m, fr, in.High)
		}
		mx := c.slCap(s)
		if in.Max != nil {
			mx = x.toIntTerm(m, fr, in.Max)
			x.oblige(m, "bounds", name, mkAnd(le(c.I(0), lo), le(lo, hi), le(hi, mx), le(mx, c.slCap(s))), nil, "slice bounds in range")
		} else {
			x.oblige(m, "bounds", name, mkAnd(le(c.I(0), lo), le(lo, hi), le(hi, c.slCap(s))), nil, "slice bounds in range")
		}
		m.st.assume(mkAnd(le(c.I(0), lo), le(lo, hi), le(hi, mx)))
		r := c.mkSlice(c.slRef(s), c.arith(token.ADD, c.slOff(s), lo, intT, nil), c.arith(token.SUB, hi, lo, intT, nil), c.arith(token.SUB, mx, lo, intT, nil))
		fr.env[in] = Val{t: r, typ: in.Type()}
	case *types.Basic: // string
		s := x.term(m, fr, in.X)
		ln := app("slen", c.intSort(), s)
		hi := ln
		if in.High != nil {
			hi = x.toIntTerm(m, fr, in.High)
		}
		x.oblige(m, "bounds", name, mkAnd(le(c.I(0), lo), le(lo, hi), le(hi, ln)), nil, "string slice bounds in range")
		m.st.assume(mkAnd(le(c.I(0), lo), le(lo, hi), le(hi, ln)))
		fr.env[in] = Val{t: x.substr(st, s, lo, hi), typ: in.Type()}
	case *types.Pointer: // pointer to array
		at := u.Elem().Underlying().(*types.Array)
		p := c.ptrOf(x.val(m, fr, in.X))
		x.checkDeref(m, fr, in, p)
		hi := c.I(at.Len())
		if in.High != nil {
			hi = x.toIntTerm(m, fr, in.High)
		}
		x.oblige(m, "bounds", name, mkAnd(le(c.I(0), lo), le(lo, hi), le(hi, c.I(at.Len()))), nil, "slice bounds in range")
		m.st.assume(mkAnd(le(c.I(0), lo), le(lo, hi), le(hi, c.I(at.Len()))))
		// slicing an array: the array becomes the backing store. Supported only for a fresh
		// (just allocated, e.g. composite literal) array: copy contents into a new backing array.
		arrVal := c.load(st, p)
		ref := c.freshRef(st)
		_ = c.sortOf(at.Elem())
		a := c.arrOf(st, at.Elem())
		c.setArr(st, at.Elem(), mkStore(a, ref, arrVal.t))
		x.markArrayAliased(fr, in, p)
		r := c.mkSlice(ref, lo, c.arith(token.SUB, hi, lo, intT, nil), c.arith(token.SUB, c.I(at.Len()), lo, intT, nil))
		fr.env[in] = Val{t: r, typ: in.Type()}
	default:
		panic(unsupported("slice of " + in.X.Type().String()))
	}
}

// markArrayAliased: after slicing an array variable the slice and the array would alias;
// the model copies, so later direct accesses to the array variable are rejected.
func (x *executor) markArrayAliased(fr *frame, in *ssa.Slice, p *Ptr) {
	// The Go compiler's lowering of composite literals `[]T{...}` and of varargs uses
	// `new [n]T` + IndexAddr stores + slice; all stores precede the slice instruction and
	// the array is not referenced afterwards. Verify that pattern syntactically.
	a, ok := in.X.(*ssa.Alloc)
	if !ok {
		panic(unsupported("slicing an array that is not a fresh allocation"))
	}
	for _, r := range *a.Referrers() {
		switch r := r.(type) {
		case *ssa.IndexAddr:
			if r.Block() != in.Block() {
				panic(unsupported("array sliced and indexed in different blocks"))
			}
			// must come before the slice instruction
			for _, i2 := range in.Block().Instrs {
				if i2 == in {
					panic(unsupported("array indexed after being sliced"))
				}
				if i2 == r {
					break
				}
			}
		case *ssa.Slice, *ssa.DebugRef:
		default:
			panic(unsupported(fmt.Sprintf("array used by %T after being sliced", r)))
		}
	}
}

func (x *executor) typeAssert(m *machine, fr *frame, in *ssa.TypeAssert) {
	c := x.c
	v := x.val(m, fr, in.X)
	boolT := types.Typ[types.Bool]
	if _, isIface := in.AssertedType.Underlying().(*types.Interface); isIface {
		// interface-to-interface assertion: succeeds iff non-nil and implements; abstract
		c.d.fun("implements", []string{"Iface", "Int"}, "Bool")
		ok := mkAnd(mkNot(c.ifaceIsNil(v.t)), app("implements", "Bool", v.t, refConst(int64(c.typeID(in.AssertedType)))))
		if types.Identical(in.AssertedType.Underlying(), types.NewInterfaceType(nil, nil)) || types.Identical(in.AssertedType, in.X.Type()) {
			ok = mkNot(c.ifaceIsNil(v.t))
		}
		if in.CommaOk {
			fr.env[in] = Val{tup: []Val{{t: mkIte(ok, v.t, atom("i-nil", "Iface")), typ: in.AssertedType}, {t: ok, typ: boolT}}}
		} else {
			x.oblige(m, "assert-type", x.instrName(fr, in, "assert-type"), ok, nil, "type assertion succeeds")
			m.st.assume(ok)
			fr.env[in] = Val{t: v.t, typ: in.AssertedType}
		}
		return
	}
	ct := c.ifaceCtor(in.AssertedType)
	is := mkIs(ct, v.t)
	val := mkSel(ct, 0, v.t)
	if in.CommaOk {
		fr.env[in] = Val{tup: []Val{{t: mkIte(is, val, c.zero(in.AssertedType)), typ: in.AssertedType}, {t: is, typ: boolT}}}
		return
	}
	x.oblige(m, "assert-type", x.instrName(fr, in, "assert-type"), is, nil, "type assertion succeeds")
	m.st.assume(is)
	fr.env[in] = Val{t: val, typ: in.AssertedType}
}

// doReturn handles a return from the current frame
func (x *executor) doReturn(m *machine, fr *frame, rs []Val) {
	if fr.top {
		x.checkPost(m, fr, rs)
		x.endPath()
	}
	// pop
	m.stack = m.stack[:len(m.stack)-1]
	caller := m.top()
	if fr.retTo != nil {
		if len(rs) == 1 {
			caller.env[fr.retTo] = rs[0]
		} else if len(rs) > 1 {
			caller.env[fr.retTo] = Val{tup: rs}
		}
	}
}

func (x *executor) checkPost(m *machine, fr *frame, rs []Val) {
	ev := x.contractEval(m, nil, token.NoPos, "")
	vars := map[string]Val{}
	for k, v := range x.params {
		vars[k] = v
	}
	sig := x.fn.Signature
	for i := 0; i < sig.Results().Len(); i++ {
		r := sig.Results().At(i)
		if r.Name() != "" && r.Name() != "_" {
			vars[r.Name()] = rs[i]
		}
		vars[fmt.Sprintf("res%d", i)] = rs[i]
		if i == sig.Results().Len()-1 && types.Identical(r.Type(), types.Universe.Lookup("error").Type()) {
			if _, taken := x.params["err"]; !taken {
				vars["err"] = rs[i]
			}
		}
	}
	if len(rs) == 1 {
		vars["result"] = rs[0]
	}
	if x.ifaceContract != nil {
		for i, rn := range x.ifaceContract.results {
			if i < len(rs) {
				vars[rn] = rs[i]
			}
		}
	}
	ev.vars = vars
	// abstract-state frame: a changed token must be covered by a declared modifies of that interface type
	for k, tok := range m.st.tokens {
		if old, ok := x.entry.tokens[k]; ok && old == tok {
			continue
		}
		if _, ok := x.entry.tokens[k]; !ok && tok.op == "tok0_"+sanitize(k) {
			continue
		}
		declared := false
		for _, mt := range x.modSet {
			if tokenKey(mt.iface) == k {
				declared = true
			}
		}
		if !declared {
			x.oblige(m, "frame", "abstract-state:"+k, tFalse, nil, "abstract state of "+k+" is modified but not declared in modifies")
		}
	}
	for i, cl := range x.allEnsures() {
		ev.where = cl.line
		g := ev.evalBool(cl.e)
		x.oblige(m, "ensures", clauseName(cl, i), g, cl.tags, cl.text)
	}
	// `fresh` declarations: the returned slices must be this call's own allocations
	for i, cl := range x.fc.freshExprs {
		ev.where = cl.line
		v := ev.eval(cl.e)
		var rt *T
		if _, ok := v.typ.Underlying().(*types.Slice); ok {
			rt = x.c.slRef(v.t)
		} else {
			rt = ev.term(v)
		}
		x.oblige(m, "ensures", fmt.Sprintf("fresh#%d", i+1), app("<=", "Bool", rt, refConst(0)), nil, "fresh "+cl.text)
	}
	if x.fc.fresh && len(rs) > 0 {
		if _, ok := rs[0].typ.Underlying().(*types.Slice); ok {
			x.oblige(m, "ensures", "fresh", app("<", "Bool", x.c.slRef(rs[0].t), refConst(0)), nil, "fresh result")
		}
	}
}

// ---- strings ------------------------------------------------------------------

func (x *executor) stringToBytes(st *state, s *T) *T {
	c := x.c
	// fresh array whose contents are the bytes of s
	ln := app("slen", c.intSort(), s)
	ref := c.freshRef(st)
	es := c.bvOrInt(8)
	name := "str2arr"
	c.d.fun(name, []string{"Str"}, arraySort(c.intSort(), es))
	arr := app(name, arraySort(c.intSort(), es), s)
	// axiom instance: forall k. arr[k] == sbyte(s,k)
	qcounter++
	k := atom(fmt.Sprintf("k!%d", qcounter), c.intSort())
	st.assume(app(fmt.Sprintf("forall ((%s %s))", k.op, k.sort), "Bool", mkEq(app("select", es, arr, k), app("sbyte", es, s, k))))
	a := c.arrOf(st, types.Typ[types.Uint8])
	c.setArr(st, types.Typ[types.Uint8], mkStore(a, ref, arr))
	return c.mkSlice(ref, c.I(0), ln, ln)
}

func (x *executor) bytesToString(st *state, s *T) *T {
	c := x.c
	es := c.bvOrInt(8)
	// uninterpreted function of (contents, off, len) with defining axioms
	c.d.fun("arr2str", []string{arraySort(c.intSort(), es), c.intSort(), c.intSort()}, "Str")
	arr := mkSelect(c.arrOf(st, types.Typ[types.Uint8]), c.slRef(s))
	r := app("arr2str", "Str", arr, c.slOff(s), c.slLen(s))
	intT := types.Typ[types.Int]
	st.assume(mkEq(app("slen", c.intSort(), r), c.slLen(s)))
	qcounter++
	k := atom(fmt.Sprintf("k!%d", qcounter), c.intSort())
	st.assume(app(fmt.Sprintf("forall ((%s %s))", k.op, k.sort), "Bool",
		mkImp(mkAnd(c.cmp(token.LEQ, c.I(0), k, intT), c.cmp(token.LSS, k, c.slLen(s), intT)),
			mkEq(app("sbyte", es, r, k), app("select", es, arr, c.ix(c.slOff(s), k))))))
	return r
}

func (x *executor) substr(st *state, s, lo, hi *T) *T {
	c := x.c
	c.d.fun("substr", []string{"Str", c.intSort(), c.intSort()}, "Str")
	r := app("substr", "Str", s, lo, hi)
	intT := types.Typ[types.Int]
	ln := c.arith(token.SUB, hi, lo, intT, nil)
	st.assume(mkEq(app("slen", c.intSort(), r), ln))
	qcounter++
	k := atom(fmt.Sprintf("k!%d", qcounter), c.intSort())
	es := c.bvOrInt(8)
	st.assume(app(fmt.Sprintf("forall ((%s %s))", k.op, k.sort), "Bool",
		mkImp(mkAnd(c.cmp(token.LEQ, c.I(0), k, intT), c.cmp(token.LSS, k, ln, intT)),
			mkEq(app("sbyte", es, r, k), app("sbyte", es, s, c.arith(token.ADD, lo, k, intT, nil))))))
	return r
}

// ---- globals --------------------------------------------------------------------

func (x *executor) globalAddr(st *state, g *ssa.Global) Val {
	// globals are modelled as immutable values; the address is only used for loads
	et := g.Type().Underlying().(*types.Pointer).Elem()
	cell := x.globalCell(st, g.Object().(*types.Var), et)
	return Val{ptr: &Ptr{kind: pkCell, cell: cell, base: et}, typ: g.Type()}
}

var globalCells = map[string]*Cell{}

func (x *executor) globalCell(st *state, o *types.Var, et types.Type) *Cell {
	key := o.Pkg().Path() + "." + o.Name()
	cell, ok := globalCells[key]
	if !ok {
		x.cellID++
		cell = &Cell{name: "global " + key, typ: et, id: x.cellID}
		globalCells[key] = cell
	}
	if _, ok := st.cells[cell]; !ok {
		st.cells[cell] = x.globalVal(st, o)
	}
	return cell
}

// globalVal: value of a package-level variable. Treated as never reassigned after init
// (checked: no Store to it outside init in repo packages).
func (x *executor) globalVal(st *state, o *types.Var) Val {
	c := x.c
	key := o.Pkg().Name() + "." + o.Name()
	t := o.Type()
	x.note("package-level variable " + key + " is treated as immutable after initialisation")
	if _, isMap := t.Underlying().(*types.Map); isMap {
		return x.globalMap(st, o)
	}
	if _, isSig := t.Underlying().(*types.Signature); isSig {
		panic(unsupported("function-typed global " + key))
	}
	name := "G_" + sanitize(key)
	v := c.d.constant(name, c.sortOf(t))
	if _, isIface := t.Underlying().(*types.Interface); isIface {
		// error sentinels: non-nil, distinct identities
		id := c.typeID(types.NewNamed(types.NewTypeName(token.NoPos, nil, "global:"+key, nil), types.Typ[types.Int], nil))
		val := mkCtor(c.iface, c.iface.ctors[1], refConst(int64(1000000+id)), refConst(0))
		st.assume(mkEq(v, val))
	}
	return Val{t: v, typ: t}
}

var _ = constant.MakeInt64

// arbitrary: an unknown well-formed value of type t (function values: an opaque identity)
func (x *executor) arbitrary(m *machine, name string, t types.Type) Val {
	c := x.c
	if _, isSig := t.Underlying().(*types.Signature); isSig {
		return Val{t: c.d.fresh(name, "Int"), typ: t}
	}
	if st, ok := t.Underlying().(*types.Struct); ok && st.NumFields() == 0 {
		return Val{t: c.zero(t), typ: t}
	}
	v := c.d.fresh(name, c.sortOf(t))
	m.st.assume(x.valueWF(v, t))
	return Val{t: v, typ: t}
}

// selectInstr: which case fires is arbitrary; received values are arbitrary (channels are opaque)
func (x *executor) selectInstr(m *machine, fr *frame, in *ssa.Select) {
	c := x.c
	intT := types.Typ[types.Int]
	for _, s := range in.States {
		x.val(m, fr, s.Chan)
		if s.Send != nil {
			x.val(m, fr, s.Send)
		}
	}
	idx := c.d.fresh("selidx", c.intSort())
	lo := c.I(0)
	if !in.Blocking {
		lo = c.I(-1)
	}
	m.st.assume(mkAnd(c.cmp(token.LEQ, lo, idx, intT), c.cmp(token.LSS, idx, c.I(int64(len(in.States))), intT)))
	tup := []Val{{t: idx, typ: intT}, {t: c.d.fresh("recvok", "Bool"), typ: types.Typ[types.Bool]}}
	for _, s := range in.States {
		if s.Dir == types.RecvOnly {
			et := s.Chan.Type().Underlying().(*types.Chan).Elem()
			tup = append(tup, x.arbitrary(m, "selrecv", et))
		}
	}
	fr.env[in] = Val{tup: tup}
	x.note("channel operations are opaque: a send has no effect on the verified state, a receive (also in a select) yields an arbitrary value of the element type, which case of a select fires is arbitrary; blocking and deadlock are not modelled")
}

func (x *executor) mathIntFor(name string) bool {
	for o := range x.fc.options {
		if strings.HasPrefix(o, "mathint=") && strings.Contains(name, strings.TrimPrefix(o, "mathint=")) {
			return true
		}
	}
	return false
}
