package main

import (
	"go/token"
	"go/types"
	"strings"

	"golang.org/x/tools/go/ssa"
)

// time.Time is modelled as (ns since the Unix epoch as a mathematical integer, "location is UTC").
// Calendar accessors are functions of the UTC day index; they require the location flag
// (obligation kind time-utc), so a non-UTC reading can never silently be treated as UTC.

const nsPerDay = "86400000000000"

func (x *executor) dayIndex(ns *T) *T { return app("div", "Int", ns, atom(nsPerDay, "Int")) }

func (x *executor) calFun(name string, day *T) *T {
	x.c.d.fun(name, []string{"Int"}, "Int")
	return app(name, "Int", day)
}

func (x *executor) timeIntrinsic(m *machine, fr *frame, in ssa.Instruction, res ssa.Value, key string, fn *ssa.Function, args []Val) bool {
	c := x.c
	st := m.st
	if !strings.HasPrefix(key, "time.") {
		return false
	}
	if c.bv {
		switch key {
		case "time.Sleep":
			return false
		}
		panic(unsupported("package time in mode bv (use mode int)"))
	}
	intT := types.Typ[types.Int]
	boolT := types.Typ[types.Bool]
	timeT := func() types.Type {
		for _, p := range x.prog.prog.AllPackages() {
			if p.Pkg.Path() == "time" {
				return p.Pkg.Scope().Lookup("Time").Type()
			}
		}
		panic("time.Time not found")
	}
	requireUTC := func(t *T, what string) {
		g := c.timeUTC(t)
		if !isTrue(g) {
			x.oblige(m, "time-utc", x.instrName(fr, in, "time-utc"), g, nil, what+" is applied to a Time whose location is UTC")
			st.assume(g)
		}
	}
	ret := func(t *T, typ types.Type) bool {
		x.setResult(fr, res, []Val{{t: t, typ: typ}})
		return true
	}
	meth := strings.TrimPrefix(key, "time.(Time).")
	if meth != key {
		t := args[0].t
		switch meth {
		case "UTC":
			return ret(c.mkTime(c.timeNs(t), tTrue), timeT())
		case "Local", "In":
			return ret(c.mkTime(c.timeNs(t), tFalse), timeT())
		case "After":
			return ret(app(">", "Bool", c.timeNs(t), c.timeNs(args[1].t)), boolT)
		case "Before":
			return ret(app("<", "Bool", c.timeNs(t), c.timeNs(args[1].t)), boolT)
		case "Equal":
			return ret(mkEq(c.timeNs(t), c.timeNs(args[1].t)), boolT)
		case "IsZero":
			return ret(mkEq(c.timeNs(t), app("-", "Int", atom(zeroTimeNs, "Int"))), boolT)
		case "UnixNano":
			return ret(c.wrap(c.timeNs(t), 64, true), types.Typ[types.Int64])
		case "Unix":
			return ret(app("div", "Int", c.timeNs(t), atom("1000000000", "Int")), types.Typ[types.Int64])
		case "Nanosecond":
			return ret(app("mod", "Int", c.timeNs(t), atom("1000000000", "Int")), intT)
		case "Year", "Day":
			requireUTC(t, "Time."+meth)
			return ret(x.calFun("cal"+meth, x.dayIndex(c.timeNs(t))), intT)
		case "Date":
			requireUTC(t, "Time.Date")
			day := x.dayIndex(c.timeNs(t))
			sig := fn.Signature
			x.setResult(fr, res, []Val{{t: x.calFun("calYear", day), typ: intT}, {t: x.calFun("calMonth", day), typ: sig.Results().At(1).Type()}, {t: x.calFun("calDay", day), typ: intT}})
			return true
		case "Month":
			requireUTC(t, "Time.Month")
			return ret(x.calFun("calMonth", x.dayIndex(c.timeNs(t))), res.Type())
		case "Weekday":
			requireUTC(t, "Time.Weekday")
			// 1970-01-01 was a Thursday (4)
			return ret(app("mod", "Int", app("+", "Int", x.dayIndex(c.timeNs(t)), atom("4", "Int")), atom("7", "Int")), res.Type())
		case "Hour":
			requireUTC(t, "Time.Hour")
			return ret(app("div", "Int", app("mod", "Int", c.timeNs(t), atom(nsPerDay, "Int")), atom("3600000000000", "Int")), intT)
		case "Minute":
			requireUTC(t, "Time.Minute")
			return ret(app("mod", "Int", app("div", "Int", app("mod", "Int", c.timeNs(t), atom(nsPerDay, "Int")), atom("60000000000", "Int")), atom("60", "Int")), intT)
		case "Add":
			return ret(c.mkTime(app("+", "Int", c.timeNs(t), args[1].t), c.timeUTC(t)), timeT())
		case "Sub":
			// Duration saturates at the int64 range
			d := app("-", "Int", c.timeNs(t), c.timeNs(args[1].t))
			lo := app("-", "Int", atom("9223372036854775808", "Int"))
			hi := atom("9223372036854775807", "Int")
			return ret(mkIte(app("<", "Bool", d, lo), lo, mkIte(app(">", "Bool", d, hi), hi, d)), res.Type())
		case "AddDate":
			y, mo, d := args[1].t, args[2].t, args[3].t
			zero := atom("0", "Int")
			if !isTrue(mkEq(y, zero)) || !isTrue(mkEq(mo, zero)) {
				panic(unsupported("Time.AddDate with non-zero years or months"))
			}
			// in UTC a calendar day is exactly 86400 s; for other locations this is an approximation, so require UTC
			requireUTC(t, "Time.AddDate")
			return ret(c.mkTime(app("+", "Int", c.timeNs(t), app("*", "Int", d, atom(nsPerDay, "Int"))), c.timeUTC(t)), timeT())
		case "Format", "String":
			r := c.d.fresh("timefmt", "Str")
			return ret(r, types.Typ[types.String])
		}
		panic(unsupported("method time.Time." + meth))
	}
	switch key {
	case "time.Now":
		ns := c.d.fresh("now", "Int")
		// time does not run backwards along a path; Now is never the zero Time
		if prev, ok := st.ghost["$now"]; ok {
			st.assume(app(">=", "Bool", ns, prev))
		}
		st.assume(app(">", "Bool", ns, atom("0", "Int")))
		st.ghost["$now"] = ns
		x.note("time.Now() returns a non-decreasing instant after the Unix epoch")
		return ret(c.mkTime(ns, tFalse), timeT())
	case "time.Unix":
		ns := app("+", "Int", app("*", "Int", args[0].t, atom("1000000000", "Int")), args[1].t)
		return ret(c.mkTime(ns, tFalse), timeT())
	case "time.Date":
		// Date(y, m, d, h, mi, s, ns, loc): for loc == time.UTC the result is
		// civilDay(y,m,d)*DAY + h*3600e9 + mi*60e9 + s*1e9 + ns, with civilDay the inverse of (calYear, calMonth, calDay).
		loc := args[7]
		isUTC := tFalse
		if loc.t != nil && loc.t.un().op == "G_time.UTC" {
			isUTC = tTrue
		}
		if !isTrue(isUTC) {
			panic(unsupported("time.Date with a location other than time.UTC"))
		}
		c.d.fun("civilDay", []string{"Int", "Int", "Int"}, "Int")
		day := app("civilDay", "Int", args[0].t, args[1].t, args[2].t)
		x.usesCivil = true
		if _, done := st.ghost["$civil"]; !done {
			st.ghost["$civil"] = tTrue
			st.assume(x.civilAxiom())
			x.axiomsUsed["time: civilDay(calYear(D), calMonth(D), calDay(D)) == D for every UTC day D (time.Date inverts Year/Month/Day)"] = true
		}
		ns := app("+", "Int", app("*", "Int", day, atom(nsPerDay, "Int")),
			app("*", "Int", args[3].t, atom("3600000000000", "Int")),
			app("*", "Int", args[4].t, atom("60000000000", "Int")),
			app("*", "Int", args[5].t, atom("1000000000", "Int")), args[6].t)
		return ret(c.mkTime(ns, tTrue), timeT())
	case "time.Since":
		// elapsed time: any duration (the clock is not related to the argument)
		dt := fn.Signature.Results().At(0).Type()
		v := c.d.fresh("since", c.sortOf(dt))
		st.assume(x.valueWF(v, dt))
		x.note("time.Since() returns an arbitrary duration")
		return ret(v, dt)
	}
	_ = token.ADD
	return false
}

// civilAxiom: civilDay inverts the calendar accessors on every UTC day.
func (x *executor) civilAxiom() *T {
	c := x.c
	c.d.fun("civilDay", []string{"Int", "Int", "Int"}, "Int")
	c.d.fun("calYear", []string{"Int"}, "Int")
	c.d.fun("calMonth", []string{"Int"}, "Int")
	c.d.fun("calDay", []string{"Int"}, "Int")
	d := atom("D!cal", "Int")
	lhs := app("civilDay", "Int", app("calYear", "Int", d), app("calMonth", "Int", d), app("calDay", "Int", d))
	return app("forall ((D!cal Int))", "Bool", mkEq(lhs, d))
}
