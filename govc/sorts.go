package main

import (
	"fmt"
	"go/constant"
	"go/token"
	"go/types"
	"math/big"
	"strings"
)

// ctx is the per-function verification context: arithmetic mode, declarations.
type ctx struct {
	bv              bool // arithmetic mode
	d               *decls
	sorts           map[string]string      // types.Type string -> sort
	structs         map[string]*structInfo // sort name -> info
	iface           *datatype              // the single interface datatype
	ifaceCtors      map[string]*dtCtor     // by type key
	ifaceTypes      map[string]types.Type
	slice           *datatype
	strLits         map[string]*T
	strLitOrder     []string
	typeIDs         map[string]int
	assumptionsUsed map[string]bool
	defNames        map[string]bool
	defAsserts      map[*T]string
	usesIx          bool
	usesBits        bool
	strExt          []*T
	twins           []*T
	twinSeen        map[string]bool
	strExtSeen      map[string]bool
	wrap64          bool                  // int mode: 64-bit arithmetic wraps (exact) instead of producing overflow obligations
	facts           []symFact             // facts about heap symbols (value ranges), rendered when the symbol is used
	iptrs           map[string]iptrInfo   // interior-pointer encodings: function name -> (base type, field path)
	axiomAsserts    map[*T]bool           // assertions that are package axioms (pruned from queries they share no function symbol with)
	eptrs           map[string]types.Type // element-pointer encodings: function name -> element type
	wideBitFns      map[string]int        // int mode: uninterpreted bitwise functions on wide unsigned values -> width
}

// an interior pointer &obj.f1.f2 that escapes to memory is the term iptr_k(ref): an uninterpreted function of the
// object reference, decoded again by ptrOf / pointees()
type iptrInfo struct {
	base types.Type
	path []pathEl
}

type symFact struct {
	sym string
	t   *T
}

type structInfo struct {
	dt   *datatype
	ctor *dtCtor
	st   *types.Struct
}

func newCtx(bv bool) *ctx {
	c := &ctx{bv: bv, d: newDecls(), sorts: map[string]string{}, structs: map[string]*structInfo{},
		ifaceCtors: map[string]*dtCtor{}, ifaceTypes: map[string]types.Type{}, strLits: map[string]*T{}, typeIDs: map[string]int{},
		assumptionsUsed: map[string]bool{}, defNames: map[string]bool{}, defAsserts: map[*T]string{}}
	// slice datatype
	is := c.intSort()
	c.slice = &datatype{name: "Slice"}
	c.slice.ctors = []*dtCtor{{name: "mk-slice", fields: []dtField{{"sl-ref", "Int"}, {"sl-off", is}, {"sl-len", is}, {"sl-cap", is}}}}
	c.d.datatypes = append(c.d.datatypes, c.slice)
	c.d.dtByName["Slice"] = c.slice
	// interface datatype
	c.iface = &datatype{name: "Iface"}
	c.iface.ctors = []*dtCtor{{name: "i-nil"}, {name: "i-other", fields: []dtField{{"io-id", "Int"}, {"io-type", "Int"}}}}
	c.d.datatypes = append(c.d.datatypes, c.iface)
	c.d.dtByName["Iface"] = c.iface
	c.d.sortDecl("Str")
	c.d.fun("slen", []string{"Str"}, is)
	c.d.fun("sbyte", []string{"Str", is}, c.bvOrInt(8))
	c.d.fun("sconcat", []string{"Str", "Str"}, "Str")
	return c
}

func (c *ctx) intSort() string {
	if c.bv {
		return "(_ BitVec 64)"
	}
	return "Int"
}

func (c *ctx) bvOrInt(w int) string {
	if c.bv {
		return fmt.Sprintf("(_ BitVec %d)", w)
	}
	return "Int"
}

// intInfo returns width and signedness for Go integer basic kinds
func intInfo(t types.Type) (w int, signed bool, ok bool) {
	b, isb := t.Underlying().(*types.Basic)
	if !isb {
		return 0, false, false
	}
	switch b.Kind() {
	case types.Int8:
		return 8, true, true
	case types.Int16:
		return 16, true, true
	case types.Int32:
		return 32, true, true
	case types.Int64, types.Int:
		return 64, true, true
	case types.Uint8:
		return 8, false, true
	case types.Uint16:
		return 16, false, true
	case types.Uint32:
		return 32, false, true
	case types.Uint64, types.Uint, types.Uintptr:
		return 64, false, true
	case types.UntypedInt:
		return 64, true, true
	case types.UntypedRune:
		return 32, true, true
	}
	return 0, false, false
}

func isFloat(t types.Type) (w int, ok bool) {
	b, isb := t.Underlying().(*types.Basic)
	if !isb {
		return 0, false
	}
	switch b.Kind() {
	case types.Float64, types.UntypedFloat:
		return 64, true
	case types.Float32:
		return 32, true
	}
	return 0, false
}

func isString(t types.Type) bool {
	b, ok := t.Underlying().(*types.Basic)
	return ok && (b.Kind() == types.String || b.Kind() == types.UntypedString)
}

func isBool(t types.Type) bool {
	b, ok := t.Underlying().(*types.Basic)
	return ok && (b.Kind() == types.Bool || b.Kind() == types.UntypedBool)
}

func typeKey(t types.Type) string {
	return types.TypeString(types.Unalias(t), func(p *types.Package) string { return p.Name() })
}

// sortOf maps a Go type to an SMT sort, declaring datatypes as needed.
func (c *ctx) sortOf(t types.Type) string {
	t = types.Unalias(t)
	key := typeKey(t)
	if s, ok := c.sorts[key]; ok {
		return s
	}
	s := c.sortOf1(t)
	c.sorts[key] = s
	return s
}

func isTimeType(t types.Type) bool {
	n, ok := types.Unalias(t).(*types.Named)
	return ok && n.Obj().Pkg() != nil && n.Obj().Pkg().Path() == "time" && n.Obj().Name() == "Time"
}

const zeroTimeNs = "62135596800000000000" // absolute value of the zero Time in ns before the Unix epoch

func (c *ctx) timeDT() (*datatype, *dtCtor) {
	if dt, ok := c.d.dtByName["Time"]; ok {
		return dt, dt.ctors[0]
	}
	dt := &datatype{name: "Time"}
	dt.ctors = []*dtCtor{{name: "mk-time", fields: []dtField{{"t-ns", "Int"}, {"t-utc", "Bool"}}}}
	c.d.datatypes = append(c.d.datatypes, dt)
	c.d.dtByName["Time"] = dt
	return dt, dt.ctors[0]
}

func (c *ctx) mkTime(ns, utc *T) *T {
	dt, ct := c.timeDT()
	return mkCtor(dt, ct, ns, utc)
}
func (c *ctx) timeNs(t *T) *T  { _, ct := c.timeDT(); return mkSel(ct, 0, t) }
func (c *ctx) timeUTC(t *T) *T { _, ct := c.timeDT(); return mkSel(ct, 1, t) }

func (c *ctx) sortOf1(t types.Type) string {
	if isTimeType(t) {
		c.timeDT()
		return "Time"
	}
	if w, _, ok := intInfo(t); ok {
		return c.bvOrInt(w)
	}
	if w, ok := isFloat(t); ok {
		// floats are carried as their IEEE bit patterns; predicates go through to_fp
		return fmt.Sprintf("(_ BitVec %d)", w)
	}
	if isBool(t) {
		return "Bool"
	}
	if isString(t) {
		return "Str"
	}
	switch u := t.Underlying().(type) {
	case *types.Pointer:
		return "Int"
	case *types.Slice:
		return "Slice"
	case *types.Map:
		return "Int"
	case *types.Chan:
		return "Int"
	case *types.Signature:
		return "Int" // opaque function value id
	case *types.Interface:
		return "Iface"
	case *types.Array:
		return arraySort(c.intSort(), c.sortOf(u.Elem()))
	case *types.Struct:
		name := "S_" + sanitize(typeKey(t))
		if _, isNamed := t.(*types.Named); !isNamed {
			name = fmt.Sprintf("S_anon%d", len(c.structs))
		}
		// special opaque treatment for a few library structs
		dt := &datatype{name: name}
		ct := &dtCtor{name: "mk-" + name}
		c.sorts[typeKey(t)] = name // allow recursion through pointers
		for i := 0; i < u.NumFields(); i++ {
			f := u.Field(i)
			ct.fields = append(ct.fields, dtField{fmt.Sprintf("%s.%s", name, sanitize(f.Name())), c.sortOf(f.Type())})
		}
		if len(ct.fields) == 0 {
			ct.fields = append(ct.fields, dtField{name + ".__empty", "Bool"})
		}
		dt.ctors = []*dtCtor{ct}
		c.d.datatypes = append(c.d.datatypes, dt)
		c.d.dtByName[name] = dt
		c.structs[name] = &structInfo{dt: dt, ctor: ct, st: u}
		return name
	case *types.Tuple:
		return "Bool" // not used as a term
	case *types.TypeParam:
		return "Iface"
	case *types.Basic:
		if u.Kind() == types.UnsafePointer {
			return "Int"
		}
		if u.Kind() == types.UntypedNil {
			return "Int"
		}
	}
	panic(unsupported("type " + t.String()))
}

type unsupportedErr string

func (u unsupportedErr) Error() string    { return string(u) }
func unsupported(s string) unsupportedErr { return unsupportedErr("unsupported: " + s) }

func (c *ctx) structOf(t types.Type) *structInfo {
	s := c.sortOf(t)
	si := c.structs[s]
	if si == nil {
		panic(unsupported("not a struct sort: " + t.String()))
	}
	return si
}

// ---- numerals -------------------------------------------------------------

func (c *ctx) intConstBig(v *big.Int, w int) *T {
	if c.bv {
		m := new(big.Int).Lsh(big.NewInt(1), uint(w))
		x := new(big.Int).Mod(v, m)
		if w%4 == 0 {
			return atom(fmt.Sprintf("#x%0*s", w/4, x.Text(16)), c.bvOrInt(w))
		}
		return atom(fmt.Sprintf("#b%0*s", w, x.Text(2)), c.bvOrInt(w))
	}
	if v.Sign() < 0 {
		return app("-", "Int", atom(new(big.Int).Neg(v).String(), "Int"))
	}
	return atom(v.String(), "Int")
}

func (c *ctx) intConst(v int64, w int) *T { return c.intConstBig(big.NewInt(v), w) }

// I is an int-typed (64-bit / mathematical) constant
func (c *ctx) I(v int64) *T { return c.intConst(v, 64) }

func refConst(v int64) *T {
	if v < 0 {
		return app("-", "Int", atom(fmt.Sprint(-v), "Int"))
	}
	return atom(fmt.Sprint(v), "Int")
}

func numeralValue(t *T) (*big.Int, bool) {
	if len(t.args) == 0 {
		if strings.HasPrefix(t.op, "#x") {
			v, ok := new(big.Int).SetString(t.op[2:], 16)
			return v, ok
		}
		if strings.HasPrefix(t.op, "#b") {
			v, ok := new(big.Int).SetString(t.op[2:], 2)
			return v, ok
		}
		if t.op != "" && t.op[0] >= '0' && t.op[0] <= '9' {
			v, ok := new(big.Int).SetString(t.op, 10)
			return v, ok
		}
		return nil, false
	}
	if t.op == "-" && len(t.args) == 1 {
		v, ok := numeralValue(t.args[0])
		if ok {
			return new(big.Int).Neg(v), true
		}
	}
	return nil, false
}

// constTerm converts a go/constant value to a term of Go type t.
func (c *ctx) constTerm(v constant.Value, t types.Type) *T {
	if v == nil {
		return c.zero(t)
	}
	if w, _, ok := intInfo(t); ok {
		bi, ok2 := constant.Val(constant.ToInt(v)).(*big.Int)
		if !ok2 {
			i64, _ := constant.Int64Val(constant.ToInt(v))
			bi = big.NewInt(i64)
		}
		return c.intConstBig(bi, w)
	}
	if w, ok := isFloat(t); ok {
		f, _ := constant.Float64Val(constant.ToFloat(v))
		return c.floatConst(f, w)
	}
	if isBool(t) {
		if constant.BoolVal(v) {
			return tTrue
		}
		return tFalse
	}
	if isString(t) {
		return c.strLit(constant.StringVal(v))
	}
	panic(unsupported("constant of type " + t.String()))
}

func (c *ctx) strLit(s string) *T {
	if t, ok := c.strLits[s]; ok {
		return t
	}
	t := c.d.constant(fmt.Sprintf("strlit!%d", len(c.strLits)), "Str")
	c.strLits[s] = t
	c.strLitOrder = append(c.strLitOrder, s)
	return t
}

// strLitAxioms: literals are pairwise distinct, with known length and bytes
func (c *ctx) strLitAxioms(mentioned map[string]bool) []*T {
	var out []*T
	order := c.strLitOrder
	if mentioned != nil {
		// only the literals the query mentions (a function's log messages alone can be hundreds of byte facts)
		order = nil
		for _, s := range c.strLitOrder {
			if mentioned[c.strLits[s].op] {
				order = append(order, s)
			}
		}
	}
	n := len(order)
	for i := 0; i < n; i++ {
		si := order[i]
		ti := c.strLits[si]
		out = append(out, mkEq(app("slen", c.intSort(), ti), c.I(int64(len(si)))))
		if len(si) <= 40 {
			for k := 0; k < len(si); k++ {
				out = append(out, mkEq(app("sbyte", c.bvOrInt(8), ti, c.I(int64(k))), c.intConst(int64(si[k]), 8)))
			}
		}
	}
	if n > 1 {
		args := make([]*T, n)
		for i, s := range order {
			args[i] = c.strLits[s]
		}
		out = append(out, app("distinct", "Bool", args...))
	}
	return out
}

func (c *ctx) floatConst(f float64, w int) *T {
	// exact via rational -> use to_fp of real decimal is inexact; use bit pattern
	if w == 64 {
		return atom(fmt.Sprintf("#x%016x", mathFloat64bits(f)), "(_ BitVec 64)")
	}
	return atom(fmt.Sprintf("#x%08x", mathFloat32bits(float32(f))), "(_ BitVec 32)")
}

// zero value of a Go type
func (c *ctx) zero(t types.Type) *T {
	if isTimeType(t) {
		return c.mkTime(app("-", "Int", atom(zeroTimeNs, "Int")), tTrue)
	}
	if w, _, ok := intInfo(t); ok {
		return c.intConst(0, w)
	}
	if w, ok := isFloat(t); ok {
		return c.floatConst(0, w)
	}
	if isBool(t) {
		return tFalse
	}
	if isString(t) {
		return c.strLit("")
	}
	switch u := t.Underlying().(type) {
	case *types.Pointer, *types.Map, *types.Chan, *types.Signature:
		return refConst(0)
	case *types.Slice:
		return c.mkSlice(refConst(0), c.I(0), c.I(0), c.I(0))
	case *types.Interface, *types.TypeParam:
		return atom("i-nil", "Iface")
	case *types.Array:
		es := c.sortOf(u.Elem())
		return app("(as const "+arraySort(c.intSort(), es)+")", arraySort(c.intSort(), es), c.zero(u.Elem()))
	case *types.Struct:
		si := c.structOf(t)
		args := make([]*T, len(si.ctor.fields))
		if u.NumFields() == 0 {
			args[0] = tFalse
		}
		for i := 0; i < u.NumFields(); i++ {
			args[i] = c.zero(u.Field(i).Type())
		}
		return mkCtor(si.dt, si.ctor, args...)
	case *types.Basic:
		if u.Kind() == types.UnsafePointer || u.Kind() == types.UntypedNil {
			return refConst(0)
		}
	}
	panic(unsupported("zero of " + t.String()))
}

// ---- slices -------------------------------------------------------------

func (c *ctx) mkSlice(ref, off, ln, cp *T) *T {
	return mkCtor(c.slice, c.slice.ctors[0], ref, off, ln, cp)
}
func (c *ctx) slRef(s *T) *T { return mkSel(c.slice.ctors[0], 0, s) }
func (c *ctx) slOff(s *T) *T { return mkSel(c.slice.ctors[0], 1, s) }
func (c *ctx) slLen(s *T) *T { return mkSel(c.slice.ctors[0], 2, s) }
func (c *ctx) slCap(s *T) *T { return mkSel(c.slice.ctors[0], 3, s) }

// ---- interfaces ---------------------------------------------------------

func (c *ctx) typeID(t types.Type) int {
	k := typeKey(t)
	if id, ok := c.typeIDs[k]; ok {
		return id
	}
	id := len(c.typeIDs) + 1
	c.typeIDs[k] = id
	return id
}

// ifaceCtor returns the Iface constructor for concrete type t
func (c *ctx) ifaceCtor(t types.Type) *dtCtor {
	k := typeKey(t)
	if ct, ok := c.ifaceCtors[k]; ok {
		return ct
	}
	n := "i-" + sanitize(k)
	ct := &dtCtor{name: n, fields: []dtField{{n + ".v", c.sortOf(t)}}}
	c.iface.ctors = append(c.iface.ctors, ct)
	c.ifaceCtors[k] = ct
	c.ifaceTypes[k] = t
	return ct
}

func (c *ctx) mkIface(t types.Type, v *T) *T {
	return mkCtor(c.iface, c.ifaceCtor(t), v)
}

func (c *ctx) ifaceIsNil(x *T) *T { return mkIs(c.iface.ctors[0], x) }

// ---- integer arithmetic in both modes ------------------------------------

func pow2(w int) *big.Int { return new(big.Int).Lsh(big.NewInt(1), uint(w)) }

// wrap reduces an Int-mode value to the range of (w,signed)
func (c *ctx) wrap(x *T, w int, signed bool) *T {
	if c.bv {
		return x
	}
	if v, ok := numeralValue(x); ok {
		m := pow2(w)
		r := new(big.Int).Mod(v, m)
		if signed && r.Cmp(pow2(w-1)) >= 0 {
			r.Sub(r, m)
		}
		return c.intConstBig(r, w)
	}
	m := atom(pow2(w).String(), "Int")
	if !signed {
		return app("mod", "Int", x, m)
	}
	h := atom(pow2(w-1).String(), "Int")
	return app("-", "Int", app("mod", "Int", app("+", "Int", x, h), m), h)
}

// inRange gives the range predicate of an int-mode value
func (c *ctx) inRange(x *T, w int, signed bool) *T {
	if c.bv {
		return tTrue
	}
	var lo, hi *big.Int
	if signed {
		lo = new(big.Int).Neg(pow2(w - 1))
		hi = new(big.Int).Sub(pow2(w-1), big.NewInt(1))
	} else {
		lo = big.NewInt(0)
		hi = new(big.Int).Sub(pow2(w), big.NewInt(1))
	}
	return mkAnd(app("<=", "Bool", c.intConstBig(lo, w), x), app("<=", "Bool", x, c.intConstBig(hi, w)))
}

// rangeOfType gives type-range assumptions for a symbolic value of Go type t (int mode)
func (c *ctx) rangeOfType(x *T, t types.Type) *T {
	if w, s, ok := intInfo(t); ok {
		return c.inRange(x, w, s)
	}
	return tTrue
}

type overflowCheck struct {
	cond *T // must hold (no overflow)
	desc string
}

// arith computes x op y for Go integer type t. ovf receives overflow-freedom
// obligations in int mode for 64-bit arithmetic.
func (c *ctx) arith(op token.Token, x, y *T, t types.Type, ovf *[]overflowCheck) *T {
	w, signed, ok := intInfo(t)
	if !ok {
		panic(unsupported("arith on " + t.String()))
	}
	s := c.bvOrInt(w)
	if c.bv {
		switch op {
		case token.ADD:
			return app("bvadd", s, x, y)
		case token.SUB:
			return app("bvsub", s, x, y)
		case token.MUL:
			return app("bvmul", s, x, y)
		case token.QUO, token.REM:
			// division by a constant power of two: shifts instead of a divider circuit
			if v, ok := numeralValue(y); ok && v.Sign() > 0 && new(big.Int).And(v, new(big.Int).Sub(v, big.NewInt(1))).Sign() == 0 && v.BitLen() <= w-1 {
				k := c.intConst(int64(v.BitLen()-1), w)
				var q *T
				if signed {
					neg := app("bvslt", "Bool", x, c.intConst(0, w))
					q = mkIte(neg, app("bvneg", s, app("bvlshr", s, app("bvneg", s, x), k)), app("bvlshr", s, x, k))
				} else {
					q = app("bvlshr", s, x, k)
				}
				if op == token.QUO {
					return q
				}
				return app("bvsub", s, x, app("bvshl", s, q, k))
			}
			if op == token.QUO {
				if signed {
					return app("bvsdiv", s, x, y)
				}
				return app("bvudiv", s, x, y)
			}
			if signed {
				return app("bvsrem", s, x, y)
			}
			return app("bvurem", s, x, y)
		case token.AND:
			return app("bvand", s, x, y)
		case token.OR:
			return app("bvor", s, x, y)
		case token.XOR:
			return app("bvxor", s, x, y)
		case token.AND_NOT:
			return app("bvand", s, x, app("bvnot", s, y))
		}
		panic(unsupported("bv op " + op.String()))
	}
	// int mode
	res := func(r *T) *T {
		if w < 64 || c.wrap64 {
			return c.wrap(r, w, signed)
		}
		if ovf != nil {
			*ovf = append(*ovf, overflowCheck{c.inRange(r, w, signed), op.String()})
		}
		return r
	}
	// constant folding and identities (int mode)
	xv, xok := numeralValue(x)
	yv, yok := numeralValue(y)
	if xok && yok && (op == token.ADD || op == token.SUB || op == token.MUL) {
		var r *big.Int
		switch op {
		case token.ADD:
			r = new(big.Int).Add(xv, yv)
		case token.SUB:
			r = new(big.Int).Sub(xv, yv)
		case token.MUL:
			r = new(big.Int).Mul(xv, yv)
		}
		return res(c.intConstBig(r, 64))
	}
	if yok && yv.Sign() == 0 && (op == token.ADD || op == token.SUB) {
		return x
	}
	if xok && xv.Sign() == 0 && op == token.ADD {
		return y
	}
	if yok && yv.Cmp(big.NewInt(1)) == 0 && op == token.MUL {
		return x
	}
	if xok && xv.Cmp(big.NewInt(1)) == 0 && op == token.MUL {
		return y
	}
	switch op {
	case token.ADD:
		return res(app("+", "Int", x, y))
	case token.SUB:
		return res(app("-", "Int", x, y))
	case token.MUL:
		return res(app("*", "Int", x, y))
	case token.QUO:
		return res(c.truncDiv(x, y))
	case token.REM:
		q := c.truncDiv(x, y)
		return app("-", "Int", x, app("*", "Int", y, q))
	case token.AND, token.OR, token.XOR, token.AND_NOT:
		if op == token.AND_NOT {
			return c.arith(token.AND, x, c.bitnot(y, t), t, ovf)
		}
		if x.bit != nil && x.bit.shr == nil && y.bit == nil {
			x, y = y, x
		}
		if y.bit != nil && y.bit.shr != nil && (x.bit == nil || x.bit.shr == nil) {
			if _, isNum := numeralValue(x); isNum {
				x, y = y, x
			}
		}
		if _, ok := numeralValue(x); ok && y.bit == nil {
			if _, ok2 := numeralValue(y); !ok2 {
				x, y = y, x
			}
		}
		if op == token.AND && !signed && x.bit != nil && x.bit.shr != nil {
			if v, ok := numeralValue(y); ok && v.Cmp(big.NewInt(1)) == 0 {
				// (v >> n) & 1
				c.usesBits = true
				inW := app("<", "Bool", x.bit.n, atom(fmt.Sprint(x.bit.w), "Int"))
				return mkIte(mkAnd(inW, app("bitof", "Bool", x.bit.shr, x.bit.n)), atom("1", "Int"), atom("0", "Int"))
			}
		}
		if op == token.AND && !signed {
			if v, ok := numeralValue(y); ok {
				v1 := new(big.Int).Add(v, big.NewInt(1))
				if new(big.Int).And(v1, v).Sign() == 0 {
					// mask 2^k-1
					return app("mod", "Int", x, atom(v1.String(), "Int"))
				}
				if v.Sign() > 0 && new(big.Int).And(v, new(big.Int).Sub(v, big.NewInt(1))).Sign() == 0 {
					// single constant bit
					return app("*", "Int", app("mod", "Int", app("div", "Int", x, atom(v.String(), "Int")), atom("2", "Int")), atom(v.String(), "Int"))
				}
			}
		}
		if y.bit != nil && y.bit.shr == nil && !signed && y.bit.w == w {
			// y is 1<<n or ^(1<<n) with symbolic n: abstract bit functions (axiomatised, see smt.go)
			c.usesBits = true
			n := y.bit.n
			inW := app("<", "Bool", n, atom(fmt.Sprint(w), "Int"))
			switch {
			case op == token.AND && !y.bit.neg: // test bit
				return mkIte(mkAnd(inW, app("bitof", "Bool", x, n)), y, atom("0", "Int"))
			case op == token.AND && y.bit.neg: // clear bit
				return mkIte(inW, app("setbit", "Int", x, n, tFalse), x)
			case op == token.OR && !y.bit.neg: // set bit
				return mkIte(inW, app("setbit", "Int", x, n, tTrue), x)
			case op == token.XOR && !y.bit.neg: // toggle
				return mkIte(inW, app("setbit", "Int", x, n, mkNot(app("bitof", "Bool", x, n))), x)
			}
		}
		if w <= 16 && !signed {
			// general bitwise operator on a narrow unsigned type: bit by bit
			var sum []*T
			for i := 0; i < w; i++ {
				bx := app("mod", "Int", app("div", "Int", x, atom(pow2(i).String(), "Int")), atom("2", "Int"))
				by := app("mod", "Int", app("div", "Int", y, atom(pow2(i).String(), "Int")), atom("2", "Int"))
				var on *T
				one := atom("1", "Int")
				switch op {
				case token.AND:
					on = mkAnd(mkEq(bx, one), mkEq(by, one))
				case token.OR:
					on = mkOr(mkEq(bx, one), mkEq(by, one))
				case token.XOR:
					on = mkNot(mkEq(bx, by))
				}
				sum = append(sum, mkIte(on, atom(pow2(i).String(), "Int"), atom("0", "Int")))
			}
			return app("+", "Int", sum...)
		}
	}
	if !signed && (op == token.XOR || op == token.AND || op == token.OR) {
		// wide unsigned operands: an uninterpreted function of the two values with the facts of smt.go (wideBitAxioms)
		name := map[token.Token]string{token.XOR: "ixor", token.AND: "iand", token.OR: "ior"}[op] + fmt.Sprint(w)
		c.d.fun(name, []string{"Int", "Int"}, "Int")
		if c.wideBitFns == nil {
			c.wideBitFns = map[string]int{}
		}
		c.wideBitFns[name] = w
		return app(name, "Int", x, y)
	}
	panic(unsupported("int-mode operator " + op.String() + " (use mode bv)"))
}

func (c *ctx) truncDiv(x, y *T) *T {
	if v, ok := numeralValue(y); ok && v.Sign() > 0 {
		// x quo c = ite(x>=0, x div c, -((-x) div c))
		return mkIte(app(">=", "Bool", x, atom("0", "Int")), app("div", "Int", x, y), app("-", "Int", app("div", "Int", app("-", "Int", x), y)))
	}
	z := atom("0", "Int")
	neg := func(a *T) *T { return app("-", "Int", a) }
	return mkIte(app(">=", "Bool", x, z),
		mkIte(app(">", "Bool", y, z), app("div", "Int", x, y), neg(app("div", "Int", x, neg(y)))),
		mkIte(app(">", "Bool", y, z), neg(app("div", "Int", neg(x), y)), app("div", "Int", neg(x), neg(y))))
}

// shift computes x << y or x >> y; x has Go type tx, y has type ty
func (c *ctx) shift(op token.Token, x, y *T, tx, ty types.Type) *T {
	w, signed, _ := intInfo(tx)
	wy, _, _ := intInfo(ty)
	s := c.bvOrInt(w)
	if c.bv {
		// bring y to width w, saturating (count >= w gives 0 / sign fill)
		var yy *T
		big := tFalse
		if wy > w {
			hi := app(fmt.Sprintf("(_ extract %d %d)", wy-1, w), fmt.Sprintf("(_ BitVec %d)", wy-w), y)
			big = mkNot(mkEq(hi, c.intConst(0, wy-w)))
			yy = app(fmt.Sprintf("(_ extract %d 0)", w-1), s, y)
		} else if wy < w {
			yy = app(fmt.Sprintf("(_ zero_extend %d)", w-wy), s, y)
		} else {
			yy = y
		}
		// SMT shifts already give 0 (or sign fill for ashr) when count >= width
		var r, sat *T
		switch op {
		case token.SHL:
			r = app("bvshl", s, x, yy)
			sat = c.intConst(0, w)
		case token.SHR:
			if signed {
				r = app("bvashr", s, x, yy)
				sat = app("bvashr", s, x, c.intConst(int64(w-1), w))
			} else {
				r = app("bvlshr", s, x, yy)
				sat = c.intConst(0, w)
			}
		}
		return mkIte(big, sat, r)
	}
	// int mode
	if v, ok := numeralValue(y); ok && v.IsInt64() && v.Int64() < 63 {
		p := atom(pow2(int(v.Int64())).String(), "Int")
		switch op {
		case token.SHL:
			return c.wrap(app("*", "Int", x, p), w, signed)
		case token.SHR:
			return app("div", "Int", x, p) // floor division = arithmetic shift
		}
	}
	// variable shift count: case split over 0..w-1, saturating at w (Go: count >= width gives 0 / sign fill)
	var r *T
	pw := atom(pow2(w).String(), "Int")
	if op == token.SHL {
		r = atom("0", "Int")
	} else {
		r = app("div", "Int", x, pw)
	}
	for i := w - 1; i >= 0; i-- {
		p := atom(pow2(i).String(), "Int")
		var b *T
		if op == token.SHL {
			if xv, ok := numeralValue(x); ok {
				b = c.wrap(atom(new(big.Int).Mul(xv, pow2(i)).String(), "Int"), w, signed)
			} else {
				b = c.wrap(app("*", "Int", x, p), w, signed)
			}
		} else {
			b = app("div", "Int", x, p)
		}
		if i == 0 {
			b = x
		}
		r = mkIte(mkEq(y, atom(fmt.Sprint(i), "Int")), b, r)
	}
	if op == token.SHL {
		if v, ok := numeralValue(x); ok && v.Cmp(big.NewInt(1)) == 0 && !signed {
			r = &T{op: r.op, args: r.args, sort: r.sort, bit: &bitMeta{n: y, w: w}}
		}
	} else if !signed {
		r = &T{op: r.op, args: r.args, sort: r.sort, bit: &bitMeta{n: y, w: w, shr: x}}
	}
	return r
}

func (c *ctx) cmp(op token.Token, x, y *T, t types.Type) *T {
	if !c.bv {
		if xv, ok := numeralValue(x); ok {
			if yv, ok2 := numeralValue(y); ok2 {
				if _, _, isInt := intInfo(t); isInt {
					k := xv.Cmp(yv)
					var r bool
					switch op {
					case token.EQL:
						r = k == 0
					case token.NEQ:
						r = k != 0
					case token.LSS:
						r = k < 0
					case token.LEQ:
						r = k <= 0
					case token.GTR:
						r = k > 0
					case token.GEQ:
						r = k >= 0
					}
					if r {
						return tTrue
					}
					return tFalse
				}
			}
		}
	}
	if w, ok := isFloat(t); ok {
		x, y = fpOf(x, w), fpOf(y, w)
		switch op {
		case token.EQL:
			return app("fp.eq", "Bool", x, y)
		case token.NEQ:
			return mkNot(app("fp.eq", "Bool", x, y))
		case token.LSS:
			return app("fp.lt", "Bool", x, y)
		case token.LEQ:
			return app("fp.leq", "Bool", x, y)
		case token.GTR:
			return app("fp.gt", "Bool", x, y)
		case token.GEQ:
			return app("fp.geq", "Bool", x, y)
		}
	}
	switch op {
	case token.EQL, token.NEQ:
		if x.sort == "Str" && !same(x, y) {
			c.strExtInstance(x, y)
		}
		if op == token.EQL {
			return mkEq(x, y)
		}
		return mkNot(mkEq(x, y))
	}
	_, signed, ok := intInfo(t)
	if !ok {
		if isString(t) {
			// lexicographic comparison is uninterpreted
			c.d.fun("strlt", []string{"Str", "Str"}, "Bool")
			switch op {
			case token.LSS:
				return app("strlt", "Bool", x, y)
			case token.GTR:
				return app("strlt", "Bool", y, x)
			case token.LEQ:
				return mkNot(app("strlt", "Bool", y, x))
			case token.GEQ:
				return mkNot(app("strlt", "Bool", x, y))
			}
		}
		panic(unsupported("comparison on " + t.String()))
	}
	if c.bv {
		var o string
		switch op {
		case token.LSS:
			o = "lt"
		case token.LEQ:
			o = "le"
		case token.GTR:
			o = "gt"
		case token.GEQ:
			o = "ge"
		}
		if signed {
			return app("bvs"+o, "Bool", x, y)
		}
		return app("bvu"+o, "Bool", x, y)
	}
	var o string
	switch op {
	case token.LSS:
		o = "<"
	case token.LEQ:
		o = "<="
	case token.GTR:
		o = ">"
	case token.GEQ:
		o = ">="
	}
	return app(o, "Bool", x, y)
}

// convertInt converts integer x of Go type from to Go type to
func (c *ctx) convertInt(x *T, from, to types.Type) *T {
	wf, sf, _ := intInfo(from)
	wt, st, _ := intInfo(to)
	if c.bv {
		s := c.bvOrInt(wt)
		switch {
		case wt == wf:
			return x
		case wt < wf:
			return app(fmt.Sprintf("(_ extract %d 0)", wt-1), s, x)
		default:
			if v, ok := numeralValue(x); ok && !sf {
				return c.intConstBig(v, wt)
			}
			if sf {
				return app(fmt.Sprintf("(_ sign_extend %d)", wt-wf), s, x)
			}
			return app(fmt.Sprintf("(_ zero_extend %d)", wt-wf), s, x)
		}
	}
	// int mode: value preserved if it fits, else wrap
	if wt > wf && (st || !sf) {
		return x
	}
	if wt == wf && st == sf {
		return x
	}
	return c.wrap(x, wt, st)
}

func (c *ctx) neg(x *T, t types.Type, ovf *[]overflowCheck) *T {
	w, _, _ := intInfo(t)
	return c.arith(token.SUB, c.intConst(0, w), x, t, ovf)
}

func (c *ctx) bitnot(x *T, t types.Type) *T {
	w, signed, _ := intInfo(t)
	if c.bv {
		return app("bvnot", c.bvOrInt(w), x)
	}
	if signed {
		return app("-", "Int", app("-", "Int", x), atom("1", "Int"))
	}
	r := app("-", "Int", atom(new(big.Int).Sub(pow2(w), big.NewInt(1)).String(), "Int"), x)
	if x.bit != nil && !x.bit.neg {
		r.bit = &bitMeta{n: x.bit.n, w: x.bit.w, neg: true}
	}
	return r
}

// fpOf interprets an IEEE bit pattern as a floating-point number
func fpOf(bits *T, w int) *T {
	if w == 64 {
		return app("(_ to_fp 11 53)", "(_ FloatingPoint 11 53)", bits)
	}
	return app("(_ to_fp 8 24)", "(_ FloatingPoint 8 24)", bits)
}

// ix is the element index off+k of a slice access. In int mode it is an
// uninterpreted function with the defining axiom (ix o k) = o + k (pattern-triggered),
// so that quantified facts about slice elements have arithmetic-free triggers.
func (c *ctx) ix(off, k *T) *T {
	if c.bv {
		return app("bvadd", c.intSort(), off, k)
	}
	c.usesIx = true
	// a view s[c:...] indexes from (+ off(s) c): for ground accesses also put the twin term ix(off(s), c+k)
	// into the query (equal by the ix axiom), so that facts stated over either view can be triggered
	if u := off.un(); u.op == "+" && len(u.args) == 2 {
		if _, isNum := numeralValue(u.args[1]); isNum {
			at := map[string]bool{}
			collectAtoms(k, at)
			collectAtoms(u.args[0], at)
			ground := true
			for n := range at {
				if strings.Contains(n, "!q") || strings.HasPrefix(n, "k!") || strings.HasPrefix(n, "p!") || strings.HasPrefix(n, "r!") || strings.HasPrefix(n, "i!") {
					ground = false
				}
			}
			if ground {
				a := app("ix", "Int", off, k)
				b := app("ix", "Int", u.args[0], c.arith(token.ADD, u.args[1], k, types.Typ[types.Int], nil))
				key := a.String()
				if c.twinSeen == nil {
					c.twinSeen = map[string]bool{}
				}
				if !c.twinSeen[key] && len(c.twins) < 400 {
					c.twinSeen[key] = true
					c.twins = append(c.twins, mkEq(a, b))
				}
			}
		}
	}
	return app("ix", "Int", off, k)
}

// strExtInstance records an instance of string extensionality for the pair (a, b):
//
//	a = b  or  slen(a) != slen(b)  or  the strings differ at index sdiff(a,b).
//
// Only recorded for ground terms (no bound variables).
func (c *ctx) strExtInstance(a, b *T) {
	at := map[string]bool{}
	collectAtoms(a, at)
	collectAtoms(b, at)
	for n := range at {
		if strings.Contains(n, "!q") || strings.HasPrefix(n, "k!") {
			return
		}
	}
	key := a.String() + "|" + b.String()
	if c.strExtSeen == nil {
		c.strExtSeen = map[string]bool{}
	}
	if c.strExtSeen[key] || len(c.strExt) > 40 {
		return
	}
	c.strExtSeen[key] = true
	c.d.fun("sdiff", []string{"Str", "Str"}, c.intSort())
	d := app("sdiff", c.intSort(), a, b)
	intT := types.Typ[types.Int]
	la, lb := app("slen", c.intSort(), a), app("slen", c.intSort(), b)
	fact := mkOr(mkEq(a, b), mkNot(mkEq(la, lb)),
		mkAnd(c.cmp(token.LEQ, c.I(0), d, intT), c.cmp(token.LSS, d, la, intT), mkNot(mkEq(app("sbyte", c.bvOrInt(8), a, d), app("sbyte", c.bvOrInt(8), b, d)))))
	c.strExt = append(c.strExt, fact)
}
