package main

import (
	"fmt"
	"go/ast"
	"go/scanner"
	"go/token"
	"go/types"
	"sort"
	"strings"

	"golang.org/x/tools/go/ssa"
)

type obligation struct {
	name   string
	kind   string
	fn     string
	tags   []string
	pc     []*T
	goal   *T
	where  string
	st     *state
	c      *ctx
	pathID int
	text   string // clause / expression text

	// results
	status    string // "unsat" (discharged) | "sat" | "unknown" | "trivial"
	solver    string
	seconds   float64
	model     string
	detail    string
	expectSat bool // vacuity guard: must be satisfiable
}

type deferredCall struct {
	call  *ssa.CallCommon
	fn    Val
	args  []Val
	instr *ssa.Defer
}

type loopRun struct {
	li        *loopInfo
	lc        *loopContract
	headSt    *state // state at loop head after havoc+assume (for decreases)
	measure0  *T
	modRefs   []modTarget                           // heap regions the loop may modify
	allocMark *T                                    // lowest reference allocated before the loop was entered
	preSt     *state                                // state before havoc (for old-style references)
	cuts      map[*ssa.BasicBlock]map[ssa.Value]Val // cut points already continued: recorded live values
	cutFns    map[*ssa.BasicBlock]map[*Cell]Val
}

type modTarget struct {
	iface string     // non-empty: abstract state of this interface type (token), no heap region
	heap  bool       // object heap (else array heap)
	typ   types.Type // pointee / element type
	sort  string     // heap key; "map:<type>" for maps
	ref   *T
	path  []pathEl // non-empty: only this part of the object (an embedded struct reached through an interior pointer)
	cell  *Cell    // non-nil: a local variable of the caller (no heap region)
	all   bool     // every array (heap: every object) of this element type: allof(T)
}

type frame struct {
	fn        *ssa.Function
	key       string
	env       map[ssa.Value]Val
	cells     map[*ssa.Alloc]*Cell
	defers    []*deferredCall
	block     *ssa.BasicBlock
	idx       int
	pred      *ssa.BasicBlock
	retTo     ssa.Value // call instruction in caller receiving results (nil for deferred / top)
	loops     []*loopInfo
	loopBy    map[*ssa.BasicBlock]*loopInfo
	active    map[*ssa.BasicBlock]*loopRun
	bindings  []Val
	fc        *funcContract
	top       bool
	inDefer   bool // this frame was pushed by RunDefers
	panicking bool
	curLoop   *loopInfo // loop whose contract is being evaluated
}

func (fr *frame) clone() *frame {
	n := *fr
	n.env = make(map[ssa.Value]Val, len(fr.env))
	for k, v := range fr.env {
		n.env[k] = v
	}
	n.cells = make(map[*ssa.Alloc]*Cell, len(fr.cells))
	for k, v := range fr.cells {
		n.cells[k] = v
	}
	n.defers = append([]*deferredCall{}, fr.defers...)
	n.active = make(map[*ssa.BasicBlock]*loopRun, len(fr.active))
	for k, v := range fr.active {
		n.active[k] = v
	}
	return &n
}

// lookupLocal finds the cell of the local variable `name` visible at pos,
// using the type checker's scopes; hidden variables (rangeindex) by loop.
func (fr *frame) lookupLocal(name string, pos token.Pos) *Cell {
	if strings.HasPrefix(name, "rangeindex") {
		// the hidden index of the range loop whose header is the current loop, or (rangeindexN) of loop N
		target := fr.curLoop
		if name != "rangeindex" {
			target = nil
			for _, li := range fr.loops {
				if fmt.Sprint(li.ordinal) == strings.TrimPrefix(name, "rangeindex") {
					target = li
				}
			}
		}
		if target != nil {
			for _, in := range target.header.Instrs {
				if st, ok := in.(*ssa.Store); ok {
					if a, ok := st.Addr.(*ssa.Alloc); ok && a.Comment == "rangeindex" {
						return fr.cells[a]
					}
				}
			}
		}
		return nil
	}
	if fr.fn.Pkg != nil && pos.IsValid() {
		if sc := fr.fn.Pkg.Pkg.Scope().Innermost(pos); sc != nil {
			if _, obj := sc.LookupParent(name, pos); obj != nil {
				if v, ok := obj.(*types.Var); ok && !v.IsField() && v.Parent() != fr.fn.Pkg.Pkg.Scope() {
					for a, c := range fr.cells {
						if a != nil && a.Pos() == v.Pos() && a.Comment == name {
							return c
						}
					}
				}
				return nil
			}
		}
	}
	if a := fr.anchoredAllocAt(name, pos); a != nil {
		if c := fr.cells[a]; c != nil {
			return c
		}
	}
	var best *Cell
	var bestPos token.Pos = -1
	for a, c := range fr.cells {
		if a.Comment != name {
			continue
		}
		ap := a.Pos()
		if pos.IsValid() && ap.IsValid() && ap > pos {
			continue
		}
		if ap > bestPos {
			best, bestPos = c, ap
		}
	}
	return best
}

// lookupHeapLocal finds a local variable that lives in the object heap (its address escapes)
func (fr *frame) lookupHeapLocal(name string, pos token.Pos) *Ptr {
	if fr.fn.Pkg == nil || !pos.IsValid() {
		return nil
	}
	sc := fr.fn.Pkg.Pkg.Scope().Innermost(pos)
	if sc == nil {
		return nil
	}
	_, obj := sc.LookupParent(name, pos)
	v, ok := obj.(*types.Var)
	if !ok {
		if a := fr.anchoredAlloc(name); a != nil {
			if pv, ok := fr.env[a]; ok && pv.ptr != nil && pv.ptr.kind == pkHeap {
				return pv.ptr
			}
		}
		return nil
	}
	for val, pv := range fr.env {
		if a, ok := val.(*ssa.Alloc); ok && a.Comment == name && a.Pos() == v.Pos() && pv.ptr != nil && pv.ptr.kind == pkHeap {
			return pv.ptr
		}
	}
	return nil
}

// namedLocals lists the function's named local variables (naive-form allocs, parameters included) in source order
func namedLocals(fn *ssa.Function) []*ssa.Alloc {
	var out []*ssa.Alloc
	for _, b := range fn.Blocks {
		for _, in := range b.Instrs {
			if a, ok := in.(*ssa.Alloc); ok && a.Comment != "" && a.Comment != "rangeindex" && a.Comment != "complit" && a.Comment != "varargs" && !strings.HasPrefix(a.Comment, "defer$") && a.Pos().IsValid() {
				out = append(out, a)
			}
		}
	}
	sort.SliceStable(out, func(i, j int) bool { return out[i].Pos() < out[j].Pos() })
	return out
}

func localTypeString(a *ssa.Alloc) string {
	return types.TypeString(a.Type().Underlying().(*types.Pointer).Elem(), func(p *types.Package) string { return p.Name() })
}

// anchoredAlloc resolves a name that no longer exists in the source through its positional anchor
// (`local name type#k` in the contract): the k-th named local of that type. Used only when the name
// itself is not declared in the function any more (i.e. the variable was renamed).
func (fr *frame) anchoredAlloc(name string) *ssa.Alloc {
	return fr.anchoredAllocAt(name, token.NoPos)
}

// anchoredAllocAt: as anchoredAlloc; when the name had several declarations (a loop variable declared in several
// loops) the one that is visible at pos is chosen
func (fr *frame) anchoredAllocAt(name string, pos token.Pos) *ssa.Alloc {
	if fr.fc == nil || fr.fc.localAnchors == nil {
		return nil
	}
	an, ok := fr.fc.localAnchors[name]
	if !ok {
		return nil
	}
	locals := namedLocals(fr.fn)
	for _, a := range locals {
		if a.Comment == name {
			return nil // the name still exists: normal resolution applies
		}
	}
	var cands []*ssa.Alloc
	ords := an.ords
	if len(ords) == 0 {
		ords = []int{an.ord}
	}
	for _, want := range ords {
		k := 0
		for _, a := range locals {
			if localTypeString(a) == an.typ {
				k++
				if k == want {
					cands = append(cands, a)
				}
			}
		}
	}
	if len(cands) == 0 {
		return nil
	}
	if len(cands) > 1 && pos.IsValid() && fr.fn.Pkg != nil {
		if sc := fr.fn.Pkg.Pkg.Scope().Innermost(pos); sc != nil {
			for _, a := range cands {
				if _, obj := sc.LookupParent(a.Comment, pos); obj != nil && obj.Pos() == a.Pos() {
					return a
				}
			}
		}
	}
	return cands[0]
}

type machine struct {
	st    *state
	stack []*frame
	id    int
}

func (m *machine) top() *frame { return m.stack[len(m.stack)-1] }

func (m *machine) clone() *machine {
	n := &machine{st: m.st.clone()}
	for _, f := range m.stack {
		n.stack = append(n.stack, f.clone())
	}
	return n
}

type executor struct {
	prog             *program
	specs            *specDB
	c                *ctx
	fc               *funcContract
	fn               *ssa.Function
	key              string
	obls             []*obligation
	ghostTypes       map[string]types.Type
	entry            *state
	params           map[string]Val
	paths            int
	work             []*machine
	cellID           int
	instrNames       map[ssa.Instruction]string
	dropped          map[string]int // dropped / abstracted calls, for the evidence
	externs          map[string]bool
	axiomsUsed       map[string]bool
	globals          map[string]*T
	maxPaths         int
	implFor          types.Type
	ifaceContract    *funcContract // contract being implemented (if implements)
	errs             []string
	modSet           []modTarget // function-level modifies (evaluated at entry)
	srcText          map[token.Pos]string
	pkg              *types.Package
	assumeNotes      map[string]bool
	recursionMeasure *T
	curState         *state
	usesCivil        bool
	loopHeapLocals   []modTarget
	mergeRec         map[*ssa.BasicBlock]map[ssa.Value]Val
}

func newExecutor(prog *program, specs *specDB) *executor {
	return &executor{prog: prog, specs: specs, ghostTypes: map[string]types.Type{}, instrNames: map[ssa.Instruction]string{},
		dropped: map[string]int{}, externs: map[string]bool{}, axiomsUsed: map[string]bool{}, globals: map[string]*T{}, maxPaths: 20000,
		srcText: globalSrcText, assumeNotes: map[string]bool{}}
}

func (x *executor) note(s string) { x.assumeNotes[s] = true }

// ---- obligations ------------------------------------------------------------

func (x *executor) oblige(m *machine, kind, detail string, goal *T, tags []string, text string) *obligation {
	o := &obligation{name: x.key + "/" + kind + ":" + detail, kind: kind, fn: x.key, tags: tags, pc: m.st.pc, goal: goal, st: m.st, c: x.c, pathID: m.id, text: text}
	if isTrue(goal) {
		o.status = "trivial"
	}
	x.obls = append(x.obls, o)
	return o
}

func (x *executor) instrName(fr *frame, in ssa.Instruction, kind string) string {
	txt := x.sourceOf(fr.fn, in)
	pre := ""
	if !fr.top {
		pre = fr.key + ":"
	}
	return pre + txt
}

// sourceOf returns source text describing the instruction
func (x *executor) sourceOf(fn *ssa.Function, in ssa.Instruction) string {
	pos := in.Pos()
	if !pos.IsValid() {
		return fmt.Sprintf("b%d.%s", in.Block().Index, strings.SplitN(in.String(), " ", 2)[0])
	}
	x.indexSource(fn)
	if s, ok := x.srcText[pos]; ok {
		return s
	}
	p := x.prog.fset.Position(pos)
	// fall back to the source line text, trimmed
	line := x.prog.lineText(p.Filename, p.Line)
	return normSrc(line)
}

func (p *program) lineText(file string, line int) string {
	b := p.srcFile(file)
	ls := strings.Split(string(b), "\n")
	if line-1 < len(ls) && line >= 1 {
		return ls[line-1]
	}
	return ""
}

func (p *program) srcFile(file string) []byte {
	b, ok := p.srcCache[file]
	if !ok {
		b, _ = osReadFile(file)
		p.srcCache[file] = b
	}
	return b
}

var indexedFns = map[*ssa.Function]bool{}

// source text of expressions by position, shared by all executors (filled once per top-level function)
var globalSrcText = map[token.Pos]string{}

func (x *executor) indexSource(fn *ssa.Function) {
	root := fn
	for root.Parent() != nil {
		root = root.Parent()
	}
	if indexedFns[root] {
		return
	}
	indexedFns[root] = true
	syn := root.Syntax()
	if syn == nil {
		return
	}
	ast.Inspect(syn, func(n ast.Node) bool {
		if n == nil {
			return true
		}
		txt := func(a ast.Node) string { return normSrc(x.prog.src(a.Pos(), a.End())) }
		switch n := n.(type) {
		case *ast.IndexExpr:
			x.srcText[n.Lbrack] = txt(n)
		case *ast.SliceExpr:
			x.srcText[n.Lbrack] = txt(n)
		case *ast.StarExpr:
			x.srcText[n.Star] = txt(n)
		case *ast.CallExpr:
			x.srcText[n.Lparen] = txt(n)
		case *ast.BinaryExpr:
			x.srcText[n.OpPos] = txt(n)
		case *ast.TypeAssertExpr:
			x.srcText[n.Lparen] = txt(n)
		case *ast.SelectorExpr:
			if _, ok := x.srcText[n.Sel.Pos()]; !ok {
				x.srcText[n.Sel.Pos()] = txt(n)
			}
		case *ast.UnaryExpr:
			x.srcText[n.OpPos] = txt(n)
		case *ast.CompositeLit:
			x.srcText[n.Lbrace] = txt(n)
		}
		return true
	})
}

// ---- setup ------------------------------------------------------------------

func (x *executor) newCell(a *ssa.Alloc, name string, t types.Type) *Cell {
	x.cellID++
	return &Cell{name: name, typ: t, alloc: a, id: x.cellID}
}

func (x *executor) newFrame(fn *ssa.Function, key string) *frame {
	fr := &frame{fn: fn, key: key, env: map[ssa.Value]Val{}, cells: map[*ssa.Alloc]*Cell{}, active: map[*ssa.BasicBlock]*loopRun{}}
	fr.loops = findLoops(fn)
	fr.loopBy = map[*ssa.BasicBlock]*loopInfo{}
	// match loops to source loops for ordinals
	src := sourceLoops(fn)
	for _, li := range fr.loops {
		fr.loopBy[li.header] = li
		best := -1
		var bestLen token.Pos
		for i, n := range src {
			if containsAll(n, li) {
				l := n.End() - n.Pos()
				if best < 0 || l < bestLen {
					best, bestLen = i, l
				}
			}
		}
		if best >= 0 {
			li.ordinal = best + 1
		}
	}
	if len(fn.Blocks) > 0 {
		fr.block = fn.Blocks[0]
	}
	fr.fc = x.specs.funcs[key]
	return fr
}

func containsAll(n ast.Node, li *loopInfo) bool {
	any := false
	for b := range li.blocks {
		for _, in := range b.Instrs {
			if _, ok := in.(*ssa.DebugRef); ok {
				continue
			}
			p := in.Pos()
			if !p.IsValid() {
				continue
			}
			any = true
			if p < n.Pos() || p > n.End() {
				return false
			}
		}
	}
	return any
}

// symbolic creates a fresh symbolic input of Go type t
func (x *executor) symbolic(st *state, name string, t types.Type) Val {
	c := x.c
	if _, ok := t.Underlying().(*types.Signature); ok {
		// function-typed input: opaque id
		return Val{t: c.d.constant("in_"+sanitize(name), "Int"), typ: t}
	}
	v := c.d.constant("in_"+sanitize(name), c.sortOf(t))
	st.assume(c.inputWF(v, t))
	return Val{t: v, typ: t}
}

func (x *executor) contractEval(m *machine, fr *frame, pos token.Pos, where string) *evaluator {
	ev := &evaluator{x: x, st: m.st, old: x.entry, vars: x.params, frame: fr, pos: pos, pkg: x.pkg, where: where, implFor: x.implFor}
	// inside the body (invariants, asserts, cuts) a parameter name means the parameter variable's current value;
	// its entry value is <name>0
	ev.currentParams = fr != nil && fr.top
	return ev
}

// verify runs the function against its contract and fills x.obls.
func (x *executor) verify(key string) (err error) {
	defer func() {
		if r := recover(); r != nil {
			switch e := r.(type) {
			case unsupportedErr:
				err = fmt.Errorf("%s: %s", key, string(e))
			case evalErr:
				err = fmt.Errorf("%s: contract error: %s", key, e.msg)
			default:
				panic(r)
			}
		}
	}()
	x.key = key
	x.fc = x.specs.funcs[key]
	x.fn = x.prog.funcs[key]
	if x.fn == nil {
		return fmt.Errorf("contract-anchor: no function %s in the source tree", key)
	}
	if len(x.fn.Blocks) == 0 {
		return fmt.Errorf("contract-anchor: function %s has no body", key)
	}
	x.pkg = x.fn.Pkg.Pkg
	x.c = newCtx(x.fc.mode == "bv")
	x.c.wrap64 = x.fc.wrap64
	st := newState()
	fr := x.newFrame(x.fn, key)
	fr.top = true
	x.params = map[string]Val{}
	for _, p := range x.fn.Params {
		v := x.symbolic(st, p.Name(), p.Type())
		fr.env[p] = v
		x.params[p.Name()] = v
		x.params[p.Name()+"0"] = v
	}
	// a renamed parameter: the name the contract uses is an alias of the parameter its anchor points to
	if x.fc.localAnchors != nil {
		locals := namedLocals(x.fn)
		declared := map[string]bool{}
		for _, a := range locals {
			declared[a.Comment] = true
		}
		for oldName, an := range x.fc.localAnchors {
			if declared[oldName] {
				continue
			}
			k := 0
			for _, a := range locals {
				if localTypeString(a) == an.typ {
					k++
					if k == an.ord {
						if v, ok := x.params[a.Comment+"0"]; ok {
							if _, have := x.params[oldName+"0"]; !have {
								x.params[oldName+"0"] = v
							}
						}
					}
				}
			}
		}
	}
	// closures verified standalone: free variables are pointers to symbolic cells
	var selfCell *Cell
	var fvPtrs []Val
	for _, fv := range x.fn.FreeVars {
		pt := fv.Type().Underlying().(*types.Pointer)
		cell := x.newCell(nil, fv.Name(), pt.Elem())
		if x.fc.selfVar != "" && fv.Name() == x.fc.selfVar {
			selfCell = cell
		} else {
			v := x.symbolic(st, fv.Name(), pt.Elem())
			st.cells[cell] = v
			x.params[fv.Name()] = v
		}
		pv := Val{ptr: &Ptr{kind: pkCell, cell: cell, base: pt.Elem()}, typ: fv.Type()}
		fr.env[fv] = pv
		fvPtrs = append(fvPtrs, pv)
	}
	if selfCell != nil {
		// the captured variable that holds this very closure (recursion through a func variable)
		st.cells[selfCell] = Val{fn: &FnVal{fn: x.fn, bindings: fvPtrs}, typ: selfCell.typ}
	}
	// interface contract being implemented
	if x.fc.implements != "" {
		ic := x.specs.funcs[x.fc.implements]
		if ic == nil {
			return fmt.Errorf("contract-anchor: implements unknown contract %s", x.fc.implements)
		}
		x.ifaceContract = ic
		if x.fn.Signature.Recv() != nil {
			x.implFor = x.fn.Signature.Recv().Type()
		}
		// bind interface contract parameter names to this function's parameters positionally
		if len(ic.params) > 0 {
			for i, pn := range ic.params {
				if i < len(x.fn.Params) {
					x.params[pn] = fr.env[x.fn.Params[i]]
				}
			}
		}
	}
	m := &machine{st: st, stack: []*frame{fr}}
	// requires
	ev := x.contractEval(m, nil, token.NoPos, "")
	ev.old = nil
	for _, cl := range x.allRequires() {
		ev.where = cl.line
		st.assume(ev.evalBool(cl.e))
	}
	for _, ax := range x.specs.axioms {
		if ax.pkg != x.pkg.Name() && ax.pkg != "" {
			continue
		}
		ev.where = ax.cl.line
		var t *T
		if len(ax.reads) > 0 {
			t = ev.genericAxiom(ax)
		} else {
			t = ev.evalBool(ax.cl.e)
		}
		st.assume(t)
		if x.c.axiomAsserts == nil {
			x.c.axiomAsserts = map[*T]bool{}
		}
		x.c.axiomAsserts[t] = true
		x.axiomsUsed[ax.name] = true
	}
	x.entry = st.clone()
	// function-level modifies set, evaluated at entry
	for _, cl := range x.allModifies() {
		ev2 := x.contractEval(m, nil, token.NoPos, cl.line)
		ev2.st = x.entry
		x.modSet = append(x.modSet, x.modTargetsOf(ev2, cl.e)...)
	}
	if x.fc.decreases != nil {
		ev2 := x.contractEval(m, nil, token.NoPos, x.fc.decreases.line)
		ev2.st = x.entry
		x.recursionMeasure = ev2.toInt(ev2.eval(x.fc.decreases.e))
	}
	for _, cl := range x.fc.assumed {
		x.note("assumed (not checked on the body) postcondition of " + key + ": " + cl.text)
	}
	// vacuity guard: the precondition must be satisfiable
	cov := x.oblige(m, "cover", "requires", tFalse, nil, "precondition satisfiable")
	cov.expectSat = true
	x.work = []*machine{m}
	for len(x.work) > 0 {
		mm := x.work[len(x.work)-1]
		x.work = x.work[:len(x.work)-1]
		x.runMachine(mm)
		if x.paths > x.maxPaths {
			return fmt.Errorf("%s: more than %d paths", key, x.maxPaths)
		}
	}
	if x.c.usesBits {
		x.note("int mode: single-bit operations with a symbolic bit index use the abstract functions bitof/setbit, axiomatised by facts of binary arithmetic (smt.go bitAxioms)")
	}
	if x.c.usesIx {
		x.note("int mode: slice element offsets use ix(off,k) with the defining axiom ix(off,k) = off+k")
	}
	for ifc, conc := range x.fc.dispatch {
		x.note("calls through interface " + ifc + " are devirtualised to " + conc + " (justified by a requires clause on the dynamic type)")
	}
	// unused loop contracts are anchoring errors
	for _, at := range x.fc.ats {
		if !at.used {
			return fmt.Errorf("contract-anchor: %s: no statement %q for %s clause", key, at.stmt, at.kind)
		}
	}
	for _, lc := range x.fc.loops {
		if !lc.used {
			return fmt.Errorf("contract-anchor: %s: loop %s has no matching loop in the source", key, lc.key)
		}
	}
	return nil
}

func (x *executor) allRequires() []*clause {
	var out []*clause
	if x.ifaceContract != nil {
		out = append(out, x.ifaceContract.requires...)
	}
	return append(out, x.fc.requires...)
}

func (x *executor) allEnsures() []*clause {
	var out []*clause
	if x.ifaceContract != nil {
		out = append(out, x.ifaceContract.ensures...)
	}
	return append(out, x.fc.ensures...)
}

func (x *executor) allModifies() []*clause {
	var out []*clause
	if x.ifaceContract != nil && len(x.fc.modifies) == 0 {
		// abstract `modifies self` is mapped by the implementation's own modifies
	}
	return append(out, x.fc.modifies...)
}

// modTargetsOf: like modTargetOf, plus pointees(s): the objects pointed to by the interface elements of the
// (constant-length) slice s, as at a variadic call f(&a, &b, ...)
func (x *executor) modTargetsOf(ev *evaluator, e Expr) []modTarget {
	if call, ok := e.(*ECall); ok {
		if id, ok := call.Fun.(*EIdent); ok && id.Name == "pointees" && len(call.Args) == 1 {
			c := x.c
			v := ev.eval(call.Args[0])
			sl, ok := v.typ.Underlying().(*types.Slice)
			if !ok {
				ev.fail("pointees needs a slice of interfaces")
			}
			n, okn := numeralValue(c.slLen(v.t))
			if !okn || !n.IsInt64() || n.Int64() > 64 {
				ev.fail("pointees(%s): the length of the slice is not a constant at this call", exprString(call.Args[0]))
			}
			arr := mkSelect(c.arrOf(ev.st, sl.Elem()), c.slRef(v.t))
			var out []modTarget
			for k := int64(0); k < n.Int64(); k++ {
				u := mkSelect(arr, c.ix(c.slOff(v.t), c.I(k))).un()
				found := false
				for key, ct := range c.ifaceCtors {
					if u.op == ct.name && len(u.args) == 1 {
						if _, ok := c.ifaceTypes[key].Underlying().(*types.Pointer); ok {
							pp := c.ptrOf(Val{t: u.args[0], typ: c.ifaceTypes[key]})
							out = append(out, modTarget{heap: true, typ: pp.base, sort: heapKey(pp.base), ref: pp.ref, path: pp.path})
							found = true
						}
					}
				}
				if !found {
					ev.fail("pointees(%s): element %d is not a pointer known at this call (%s)", exprString(call.Args[0]), k, u.String())
				}
			}
			return out
		}
	}
	return []modTarget{x.modTargetOf(ev, e)}
}

func (x *executor) modTargetOf(ev *evaluator, e Expr) modTarget {
	// allof(T): every array with element type T (for recursive structures whose nested slices cannot be named)
	if call, ok := e.(*ECall); ok {
		if id, ok := call.Fun.(*EIdent); ok && id.Name == "allof" && len(call.Args) == 1 {
			t := ev.resolveType(exprString(call.Args[0]))
			return modTarget{heap: false, typ: t, sort: heapKey(t), all: true, ref: refConst(0)}
		}
	}
	// pointee(v): the object an interface value v points to (its dynamic type must be a pointer known at the call)
	if call, ok := e.(*ECall); ok {
		if id, ok := call.Fun.(*EIdent); ok && id.Name == "pointee" && len(call.Args) == 1 {
			v := ev.eval(call.Args[0])
			u := ev.term(v).un()
			for k, ct := range x.c.ifaceCtors {
				if u.op == ct.name && len(u.args) == 1 {
					if _, ok := x.c.ifaceTypes[k].Underlying().(*types.Pointer); ok {
						pp := x.c.ptrOf(Val{t: u.args[0], typ: x.c.ifaceTypes[k]})
						return modTarget{heap: true, typ: pp.base, sort: heapKey(pp.base), ref: pp.ref, path: pp.path}
					}
					if sl, ok := x.c.ifaceTypes[k].Underlying().(*types.Slice); ok {
						// an interface holding a slice (e.g. sort.Interface over a named slice type): its backing array
						return modTarget{heap: false, typ: sl.Elem(), sort: heapKey(sl.Elem()), ref: x.c.slRef(u.args[0])}
					}
				}
			}
			ev.fail("pointee(%s): the dynamic type of the interface is not a pointer known at this call", exprString(call.Args[0]))
		}
	}
	// state(e): the abstract (model-function) state attached to the type of e, not its memory
	if call, ok := e.(*ECall); ok {
		if id, ok := call.Fun.(*EIdent); ok && id.Name == "state" && len(call.Args) == 1 {
			// state(T) with a type name: the abstract state of that type (for objects the contract cannot name)
			if sel, isSel := call.Args[0].(*ESel); isSel {
				if pk, isId := sel.X.(*EIdent); isId {
					for _, sp := range x.prog.prog.AllPackages() {
						if sp.Pkg.Name() == pk.Name {
							if o, isT := sp.Pkg.Scope().Lookup(sel.Name).(*types.TypeName); isT && ev.vars[pk.Name].typ == nil {
								return modTarget{iface: typeKeyShort(o.Type())}
							}
						}
					}
				}
			}
			v := ev.eval(call.Args[0])
			t := v.typ
			if pt, ok := t.Underlying().(*types.Pointer); ok {
				t = pt.Elem()
			}
			return modTarget{iface: typeKeyShort(t)}
		}
	}
	v := ev.eval(e)
	c := x.c
	switch u := v.typ.Underlying().(type) {
	case *types.Slice:
		return modTarget{heap: false, typ: u.Elem(), sort: heapKey(u.Elem()), ref: c.slRef(v.t)}
	case *types.Pointer:
		p := c.ptrOf(v)
		if p.kind == pkCell && len(p.path) == 0 {
			// pointer to a local variable of the caller (e.g. a method with pointer receiver called on a local)
			return modTarget{cell: p.cell, typ: p.base}
		}
		if p.kind == pkElem {
			// pointer to an array element: the whole array (coarse)
			return modTarget{heap: false, typ: p.base, sort: heapKey(p.base), ref: p.ref}
		}
		if p.kind != pkHeap {
			ev.fail("modifies target must point into the object heap")
		}
		return modTarget{heap: true, typ: p.base, sort: heapKey(p.base), ref: p.ref, path: p.path}
	case *types.Map:
		return modTarget{heap: true, typ: v.typ, sort: "map:" + typeKey(v.typ), ref: c.termOf(v)}
	case *types.Interface:
		return modTarget{iface: typeKeyShort(v.typ)}
	}
	ev.fail("modifies target %s must be a slice, map or pointer", exprString(e))
	return modTarget{}
}

// ---- main loop ----------------------------------------------------------------

type pathEnd struct{}

func (x *executor) runMachine(m *machine) {
	x.paths++
	m.id = x.paths
	defer func() {
		if r := recover(); r != nil {
			if _, ok := r.(pathEnd); ok {
				return
			}
			panic(r)
		}
	}()
	for {
		if len(m.stack) == 0 {
			return
		}
		fr := m.top()
		if fr.idx == 0 {
			// block entry: loop handling
			if li := fr.loopBy[fr.block]; li != nil {
				if !x.enterLoopHeader(m, fr, li) {
					return
				}
			} else if cs := x.cutsAt(fr, fr.block); len(cs) > 0 {
				if !x.enterCut(m, fr, cs) {
					return
				}
			}
		}
		if fr.idx >= len(fr.block.Instrs) {
			panic("fell off block")
		}
		in := fr.block.Instrs[fr.idx]
		fr.idx++
		x.curState = m.st
		if fr.fc != nil && len(fr.fc.ats) > 0 {
			x.runAts(m, fr, in)
		}
		x.step(m, fr, in)
	}
}

func (x *executor) endPath() { panic(pathEnd{}) }

func (x *executor) jump(fr *frame, to *ssa.BasicBlock) {
	fr.pred = fr.block
	fr.block = to
	fr.idx = 0
}

// enterLoopHeader handles arrival at a loop header; returns false if the path ends
func (x *executor) enterLoopHeader(m *machine, fr *frame, li *loopInfo) bool {
	c := x.c
	var lc *loopContract
	if fr.fc != nil {
		for _, l := range fr.fc.loops {
			if l.key == fmt.Sprint(li.ordinal) {
				lc = l
			}
		}
	}
	if lc == nil {
		lc = &loopContract{key: fmt.Sprint(li.ordinal)}
		panic(unsupported(fmt.Sprintf("loop %d of %s has no contract (invariant required)", li.ordinal, fr.key)))
	}
	lc.used = true
	pos := li.pos
	lname := "loop" + lc.key
	if !fr.top {
		lname = fr.key + ":" + lname
	}
	back := fr.pred != nil && li.blocks[fr.pred]
	fr.curLoop = li
	defer func() { fr.curLoop = nil }()
	if back {
		lr := fr.active[li.header]
		if lr == nil {
			panic("back edge without active loop")
		}
		ev := x.contractEval(m, fr, pos, "")
		ev.old = x.entry
		ev = x.loopEval(ev, lr)
		for i, cl := range lc.invariants {
			ev.where = cl.line
			x.oblige(m, "inv-step", fmt.Sprintf("%s.%s", lname, clauseName(cl, i)), ev.evalBool(cl.e), cl.tags, cl.text)
		}
		if lc.decreases != nil {
			ev.where = lc.decreases.line
			mnow := ev.toInt(ev.eval(lc.decreases.e))
			intT := types.Typ[types.Int]
			x.oblige(m, "decreases", lname, mkAnd(c.cmp(token.LSS, mnow, lr.measure0, intT), c.cmp(token.GEQ, lr.measure0, c.I(0), intT)), nil, lc.decreases.text)
		}
		// abstract state changed by the body must be declared in the loop's modifies
		for k, tok := range m.st.tokens {
			if old, ok := lr.headSt.tokens[k]; ok && old == tok {
				continue
			}
			if _, ok := lr.headSt.tokens[k]; !ok && tok.op == "tok0_"+sanitize(k) {
				continue
			}
			declared := false
			for _, mt := range lr.modRefs {
				if mt.iface != "" && tokenKey(mt.iface) == k {
					declared = true
				}
			}
			if !declared {
				x.oblige(m, "frame", lname+".abstract-state:"+k, tFalse, nil, "abstract state of "+k+" is modified in the loop but not declared in its modifies")
			}
		}
		return false
	}
	// entry edge
	if lc.merge {
		// inv-init is an obligation of every arriving path (checked here, before the merge)
		ev0 := x.loopEval(x.contractEval(m, fr, pos, ""), &loopRun{li: li, lc: lc, allocMark: m.st.lowRef(), preSt: m.st.clone()})
		for i, cl := range lc.invariants {
			ev0.where = cl.line
			x.oblige(m, "inv-init", fmt.Sprintf("%s.%s", lname, clauseName(cl, i)), ev0.evalBool(cl.e), cl.tags, cl.text)
		}
		if !x.mergeAtLoop(m, fr, li) {
			return false
		}
	}
	lr := &loopRun{li: li, lc: lc, allocMark: m.st.lowRef(), preSt: m.st.clone()}
	ev := x.loopEval(x.contractEval(m, fr, pos, ""), lr)
	for i, cl := range lc.invariants {
		ev.where = cl.line
		if lc.merge {
			// merged continuation: the invariants were proved by every arriving path; here they are what is known
			m.st.assume(ev.evalBool(cl.e))
			continue
		}
		x.oblige(m, "inv-init", fmt.Sprintf("%s.%s", lname, clauseName(cl, i)), ev.evalBool(cl.e), cl.tags, cl.text)
	}
	// modifies targets evaluated before the havoc
	for _, cl := range lc.modifies {
		ev.where = cl.line
		lr.modRefs = append(lr.modRefs, x.modTargetsOf(ev, cl.e)...)
	}
	x.havocLoopRegion(m, fr, li, lr, nil, nil)
	ev = x.contractEval(m, fr, pos, "")
	ev = x.loopEval(ev, lr)
	for _, cl := range lc.invariants {
		ev.where = cl.line
		m.st.assume(ev.evalBool(cl.e))
	}
	if lc.decreases != nil {
		ev.where = lc.decreases.line
		lr.measure0 = ev.toInt(ev.eval(lc.decreases.e))
	}
	lr.headSt = m.st.clone()
	fr.active[li.header] = lr
	// vacuity guard: loop head reachable with the invariant
	cov := x.oblige(m, "cover", lname, tFalse, nil, "loop head reachable under invariant")
	cov.expectSat = true
	return true
}

// havocLoopRegion makes the state an arbitrary state of the loop: cells written in the loop, the declared
// heap regions and abstract states, and everything allocated by earlier iterations get fresh values.
func (x *executor) havocLoopRegion(m *machine, fr *frame, li *loopInfo, lr *loopRun, keptFns map[*Cell]Val, cellBlocks map[*ssa.BasicBlock]bool) {
	c := x.c
	// havoc cells assigned in the loop
	x.loopHeapLocals = nil
	written := x.cellsWrittenInLoop(m, fr, li)
	if cellBlocks != nil {
		// at a cut: only cells that may be written on the way from the loop head to the cut are unknown
		x.loopHeapLocals = nil
		all := written
		written = x.cellsWrittenInLoop(m, fr, &loopInfo{header: li.header, blocks: cellBlocks, ordinal: li.ordinal, pos: li.pos})
		if keptFns != nil {
			hav := map[*Cell]bool{}
			for _, c := range written {
				hav[c] = true
			}
			for _, c := range all {
				if v, ok := m.st.cells[c]; ok && !hav[c] {
					keptFns[c] = v
				}
			}
		}
		x.loopHeapLocals = nil
		x.cellsWrittenInLoop(m, fr, li)
	}
	for _, mt := range x.loopHeapLocals {
		dup := false
		for _, o := range lr.modRefs {
			if o.heap == mt.heap && o.sort == mt.sort && same(o.ref, mt.ref) {
				dup = true
			}
		}
		if !dup {
			lr.modRefs = append(lr.modRefs, mt)
		}
	}
	for _, cell := range written {
		old, ok := m.st.cells[cell]
		if !ok {
			continue
		}
		if old.t == nil {
			if keptFns != nil && old.fn != nil {
				// at a cut: a function value assigned before the cut keeps its (path-independent, checked) value
				keptFns[cell] = old
				continue
			}
			panic(unsupported("loop assigns executor-level variable " + cell.name))
		}
		nv := c.d.fresh(cell.name, old.t.sort)
		m.st.cells[cell] = Val{t: nv, typ: old.typ}
		m.st.assume(x.valueWF(nv, old.typ))
	}
	// havoc heap regions
	for _, mt := range lr.modRefs {
		x.havocTarget(m.st, mt)
	}
	x.havocRangeGhosts(m.st, li)
	// the allocator state at the start of an arbitrary iteration: earlier iterations may have allocated
	// references in [base, mark); this iteration allocates base-1, base-2, ...
	base := c.d.fresh("allocbase", "Int")
	m.st.assume(app("<=", "Bool", base, lr.allocMark))
	m.st.low = base
	// memory allocated by earlier iterations (references in [base, mark)) holds arbitrary values:
	// every heap the loop allocates in is replaced by a fresh heap that agrees with the old one outside that region
	objT, arrT := x.allocTypesInLoop(fr, li)
	region := func(r *T) *T { return mkAnd(app("<=", "Bool", base, r), app("<", "Bool", r, lr.allocMark)) }
	for _, t := range objT {
		old := c.heapOf(m.st, t)
		nh := c.d.fresh("Hloop_"+heapKey(t), old.sort)
		qcounter++
		r := atom(fmt.Sprintf("r!%d", qcounter), "Int")
		body := mkImp(mkNot(region(r)), mkEq(app("select", c.sortOf(t), nh, r), app("select", c.sortOf(t), old, r)))
		m.st.assume(app(fmt.Sprintf("forall ((%s Int))", r.op), "Bool", &T{op: "!", args: []*T{body, atom(":pattern ((select "+nh.op+" "+r.op+"))", "Attr")}, sort: "Bool"}))
		wf := c.valueWF(app("select", c.sortOf(t), nh, r), t)
		if !isTrue(wf) {
			m.st.assume(app(fmt.Sprintf("forall ((%s Int))", r.op), "Bool", &T{op: "!", args: []*T{wf, atom(":pattern ((select "+nh.op+" "+r.op+"))", "Attr")}, sort: "Bool"}))
		}
		m.st.heaps[heapKey(t)] = nh
	}
	for _, t := range arrT {
		old := c.arrOf(m.st, t)
		nh := c.d.fresh("Aloop_"+heapKey(t), old.sort)
		qcounter++
		r := atom(fmt.Sprintf("r!%d", qcounter), "Int")
		is := arraySort(c.intSort(), c.sortOf(t))
		body := mkImp(mkNot(region(r)), mkEq(app("select", is, nh, r), app("select", is, old, r)))
		m.st.assume(app(fmt.Sprintf("forall ((%s Int))", r.op), "Bool", &T{op: "!", args: []*T{body, atom(":pattern ((select "+nh.op+" "+r.op+"))", "Attr")}, sort: "Bool"}))
		i := atom(fmt.Sprintf("i!%d", qcounter), c.intSort())
		wf := c.valueWF(app("select", c.sortOf(t), app("select", is, nh, r), i), t)
		if !isTrue(wf) {
			m.st.assume(app(fmt.Sprintf("forall ((%s Int) (%s %s))", r.op, i.op, i.sort), "Bool", wf))
		}
		m.st.arrs[heapKey(t)] = nh
	}
}

// loopEval binds `pre(e)`-style access: variables named x@pre are not supported;
// instead the evaluator's old state stays the function entry. The loop's pre-state is
// reachable through the pseudo-function preloop(e).
func (x *executor) loopEval(ev *evaluator, lr *loopRun) *evaluator {
	n := *ev
	n.preloop = lr.preSt
	n.loopMark = lr.allocMark
	n.inLoop = true
	return &n
}

func clauseName(cl *clause, i int) string {
	if cl.label != "" {
		return cl.label
	}
	return fmt.Sprintf("#%d", i+1)
}

// valueWF: facts true of every Go value of the type (not only of inputs)
func (x *executor) valueWF(v *T, t types.Type) *T { return x.c.valueWF(v, t) }

func (c *ctx) valueWF(v *T, t types.Type) *T {
	if isTimeType(t) {
		return tTrue
	}
	if w, s, ok := intInfo(t); ok {
		return c.inRange(v, w, s)
	}
	switch u := t.Underlying().(type) {
	case *types.Slice:
		z := c.I(0)
		intT := types.Typ[types.Int]
		le := func(a, b *T) *T { return c.cmp(token.LEQ, a, b, intT) }
		return mkAnd(le(z, c.slOff(v)), le(z, c.slLen(v)), le(c.slLen(v), c.slCap(v)), le(c.slCap(v), c.I(1<<62)),
			mkImp(mkEq(c.slRef(v), refConst(0)), mkEq(c.slCap(v), z)))
	case *types.Struct:
		si := c.structOf(t)
		var cs []*T
		for i := 0; i < u.NumFields(); i++ {
			cs = append(cs, c.valueWF(mkSel(si.ctor, i, v), u.Field(i).Type()))
		}
		return mkAnd(cs...)
	case *types.Basic:
		if isString(t) {
			intT := types.Typ[types.Int]
			return mkAnd(c.cmp(token.LEQ, c.I(0), app("slen", c.intSort(), v), intT), c.cmp(token.LEQ, app("slen", c.intSort(), v), c.I(1<<62), intT))
		}
	}
	return tTrue
}

func (x *executor) havocTarget(st *state, mt modTarget) {
	c := x.c
	if mt.cell != nil {
		nv := c.d.fresh("hv_"+mt.cell.name, c.sortOf(mt.typ))
		st.assume(c.valueWF(nv, mt.typ))
		st.cells[mt.cell] = Val{t: nv, typ: mt.typ}
		return
	}
	if mt.iface != "" {
		x.refreshToken(st, mt.iface)
		return
	}
	if strings.HasPrefix(mt.sort, "map:") {
		x.havocMap(st, mt)
		return
	}
	if mt.heap {
		h := c.heapOf(st, mt.typ)
		if len(mt.path) > 0 {
			pt := mt.path[len(mt.path)-1].typ
			nv := c.d.fresh("hv_"+heapKey(pt), c.sortOf(pt))
			st.assume(c.valueWF(nv, pt))
			root := mkSelect(h, mt.ref)
			c.setHeap(st, mt.typ, mkStore(h, mt.ref, c.updatePath(root, mt.typ, mt.path, nv)))
			return
		}
		nv := c.d.fresh("hv_"+mt.sort, c.sortOf(mt.typ))
		st.assume(c.valueWF(nv, mt.typ))
		c.setHeap(st, mt.typ, mkStore(h, mt.ref, nv))
		return
	}
	if mt.all {
		// every array of this element type is unknown afterwards
		old := c.arrOf(st, mt.typ)
		nh := c.d.fresh("Aall_"+mt.sort, old.sort)
		qcounter++
		r := atom(fmt.Sprintf("r!%d", qcounter), "Int")
		i := atom(fmt.Sprintf("i!%d", qcounter), c.intSort())
		wf := c.valueWF(app("select", c.sortOf(mt.typ), app("select", arraySort(c.intSort(), c.sortOf(mt.typ)), nh, r), i), mt.typ)
		if !isTrue(wf) {
			st.assume(app(fmt.Sprintf("forall ((%s Int) (%s %s))", r.op, i.op, i.sort), "Bool", wf))
		}
		st.arrs[heapKey(mt.typ)] = nh
		return
	}
	a := c.arrOf(st, mt.typ)
	nv := c.freshArr("av_"+mt.sort, mt.typ)
	c.setArr(st, mt.typ, mkStore(a, mt.ref, nv))
}

// cellsWrittenInLoop finds cells (of the current frame chain) that instructions in
// the loop may store to, including stores by closures called in the loop.
func (x *executor) cellsWrittenInLoop(m *machine, fr *frame, li *loopInfo) []*Cell {
	seen := map[*Cell]bool{}
	var out []*Cell
	add := func(c *Cell) {
		if c != nil && !seen[c] {
			seen[c] = true
			out = append(out, c)
		}
	}
	var visitFn func(fn *ssa.Function, resolve func(v ssa.Value) *Cell, depth int)
	var scanInstr func(in ssa.Instruction, resolve func(v ssa.Value) *Cell, depth int)
	rootOf := func(v ssa.Value) ssa.Value {
		for {
			switch a := v.(type) {
			case *ssa.FieldAddr:
				// only if X is itself an address of a cell (not a loaded pointer)
				v = a.X
			case *ssa.IndexAddr:
				if _, ok := a.X.Type().Underlying().(*types.Pointer); ok {
					v = a.X
				} else {
					return nil // slice element: heap write
				}
			default:
				return v
			}
		}
	}
	scanInstr = func(in ssa.Instruction, resolve func(v ssa.Value) *Cell, depth int) {
		switch in := in.(type) {
		case *ssa.Store:
			r := rootOf(in.Addr)
			if r != nil {
				add(resolve(r))
			}
		case *ssa.MapUpdate:
		case ssa.CallInstruction:
			com := in.Common()
			// closure or static function with contract-inline: scan body
			var callee *ssa.Function
			var binds []ssa.Value
			if mc, ok := com.Value.(*ssa.MakeClosure); ok {
				callee = mc.Fn.(*ssa.Function)
				binds = mc.Bindings
			} else if f, ok := com.Value.(*ssa.Function); ok {
				if x.isInlined(f) {
					callee = f
				}
			} else {
				// value loaded from a cell holding a closure: resolve through current state
				if ld, ok := com.Value.(*ssa.UnOp); ok && ld.Op == token.MUL {
					if cell := resolve(ld.X); cell != nil {
						if cv, ok := m.st.cells[cell]; ok && cv.fn != nil && cv.fn.fn != nil {
							callee = cv.fn.fn
							// bindings are executor values; resolve free vars through them
							fv := cv.fn
							if depth < 4 {
								visitFn(callee, func(v ssa.Value) *Cell {
									for i, f := range callee.FreeVars {
										if f == v && i < len(fv.bindings) && fv.bindings[i].ptr != nil && fv.bindings[i].ptr.kind == pkCell {
											return fv.bindings[i].ptr.cell
										}
									}
									return nil
								}, depth+1)
							}
							return
						}
					}
				}
			}
			if callee != nil && depth < 4 {
				visitFn(callee, func(v ssa.Value) *Cell {
					for i, f := range callee.FreeVars {
						if f == v && i < len(binds) {
							return resolve(binds[i])
						}
					}
					return nil
				}, depth+1)
			}
		}
	}
	visitFn = func(fn *ssa.Function, resolve func(v ssa.Value) *Cell, depth int) {
		for _, b := range fn.Blocks {
			for _, in := range b.Instrs {
				scanInstr(in, resolve, depth)
			}
		}
	}
	resolveTop := func(v ssa.Value) *Cell {
		switch a := v.(type) {
		case *ssa.Alloc:
			if c := fr.cells[a]; c != nil {
				return c
			}
			// a local that lives in the object heap (its address escapes): havoc that object
			if pv, ok := fr.env[a]; ok && pv.ptr != nil && pv.ptr.kind == pkHeap && len(pv.ptr.path) == 0 {
				x.loopHeapLocals = append(x.loopHeapLocals, modTarget{heap: true, typ: pv.ptr.base, sort: heapKey(pv.ptr.base), ref: pv.ptr.ref})
			}
			return nil
		case *ssa.FreeVar:
			if pv, ok := fr.env[a]; ok && pv.ptr != nil && pv.ptr.kind == pkCell {
				return pv.ptr.cell
			}
		}
		return nil
	}
	// deterministic order
	var blocks []*ssa.BasicBlock
	for b := range li.blocks {
		blocks = append(blocks, b)
	}
	sort.Slice(blocks, func(i, j int) bool { return blocks[i].Index < blocks[j].Index })
	for _, b := range blocks {
		for _, in := range b.Instrs {
			scanInstr(in, resolveTop, 0)
		}
	}
	return out
}

func (x *executor) isInlined(f *ssa.Function) bool {
	if f.Parent() != nil {
		return true
	}
	fc := x.specs.funcs[x.prog.funcKey(f)]
	return fc != nil && fc.inline
}

// verifyLemma turns a lemma (universally quantified over its parameters) into one obligation
func (x *executor) verifyLemma(lm *lemmaDecl) (o *obligation, err error) {
	defer func() {
		if r := recover(); r != nil {
			switch e := r.(type) {
			case unsupportedErr:
				err = fmt.Errorf("lemma %s: %s", lm.name, string(e))
			case evalErr:
				err = fmt.Errorf("lemma %s: contract error: %s", lm.name, e.msg)
			default:
				panic(r)
			}
		}
	}()
	x.key = "lemma:" + lm.name
	sp := x.prog.spkgs[lm.pkg]
	if sp == nil {
		return nil, fmt.Errorf("lemma %s: package %s not loaded", lm.name, lm.pkg)
	}
	x.pkg = sp.Pkg
	x.c = newCtx(lm.mode == "bv")
	st := newState()
	m := &machine{st: st}
	ev := &evaluator{x: x, st: st, vars: map[string]Val{}, pkg: x.pkg, where: lm.cl.line}
	for _, b := range lm.params {
		t := ev.resolveType(b.Type)
		ev.vars[b.Name] = x.symbolic(st, b.Name, t)
	}
	for _, ax := range x.specs.axioms {
		if ax.pkg != lm.pkg {
			continue
		}
		e2 := *ev
		e2.where = ax.cl.line
		st.assume(e2.evalBool(ax.cl.e))
		x.axiomsUsed[ax.name] = true
	}
	g := ev.evalBool(lm.cl.e)
	o = &obligation{name: "lemma:" + lm.name, kind: "lemma", fn: x.key, tags: lm.props, pc: m.st.pc, goal: g, st: st, c: x.c, text: lm.cl.text}
	if isTrue(g) {
		o.status = "trivial"
	}
	return o, nil
}

// runAts evaluates `assert`/`assume` clauses anchored before the instruction whose source text matches.
// An assert is an obligation and is assumed afterwards (a cut: later obligations may use it).
func (x *executor) runAts(m *machine, fr *frame, in ssa.Instruction) {
	if _, ok := in.(*ssa.DebugRef); ok {
		return
	}
	var txt string
	switch in.(type) {
	case *ssa.Call, *ssa.Return, *ssa.If:
		txt = x.sourceOf(fr.fn, in)
	default:
		return
	}
	var before *state
	for _, at := range fr.fc.ats {
		if !stmtMatches(fr.effStmt(at, in.Pos()), txt) || at.kind == "cut" {
			continue
		}
		if at.nth > 0 && x.occurrenceOf(fr.fn, in, txt) != at.nth {
			continue
		}
		at.used = true
		if at.kind == "havoc" {
			// ghost update: the abstract state named by the clause changes at this statement; the following
			// assume clauses (trusted) relate it to before(...)
			if before == nil {
				before = m.st.clone()
			}
			ev := x.contractEval(m, fr, in.Pos(), at.cl.line)
			for _, mt := range x.modTargetsOf(ev, at.cl.e) {
				if mt.iface == "" {
					panic(unsupported("havoc ... at: only state(...) targets are supported"))
				}
				declared := false
				for _, d := range x.modSet {
					if d.iface != "" && tokenKey(d.iface) == tokenKey(mt.iface) {
						declared = true
					}
				}
				if !declared {
					x.oblige(m, "frame", x.instrName(fr, in, "frame")+".ghost:"+mt.iface, tFalse, nil, "ghost state of "+mt.iface+" updated but not declared in modifies")
				}
				x.refreshToken(m.st, mt.iface)
			}
			x.note("ghost update at " + txt + ": " + at.cl.text)
			continue
		}
		ev := x.contractEval(m, fr, in.Pos(), at.cl.line)
		ev.before = before
		g := ev.evalBool(at.cl.e)
		name := clauseName(at.cl, 0)
		if at.kind == "assert" {
			x.oblige(m, "assert", name+"@"+txt, g, at.cl.tags, at.cl.text)
		} else {
			x.note("assumed without proof: " + at.cl.text)
		}
		m.st.assume(g)
	}
}

// allocTypesInLoop: pointee types of heap-allocated locals / new(T) and element types of make/append/
// slice-of-array in the loop body (including functions inlined into it).
func (x *executor) allocTypesInLoop(fr *frame, li *loopInfo) (obj []types.Type, arr []types.Type) {
	seenO, seenA := map[string]bool{}, map[string]bool{}
	addO := func(t types.Type) {
		if k := heapKey(t); !seenO[k] {
			seenO[k] = true
			obj = append(obj, t)
		}
	}
	addA := func(t types.Type) {
		if k := heapKey(t); !seenA[k] {
			seenA[k] = true
			arr = append(arr, t)
		}
	}
	var scan func(in ssa.Instruction, depth int)
	scanFn := func(fn *ssa.Function, depth int) {
		for _, b := range fn.Blocks {
			for _, in := range b.Instrs {
				scan(in, depth)
			}
		}
	}
	scan = func(in ssa.Instruction, depth int) {
		switch in := in.(type) {
		case *ssa.Alloc:
			if in.Heap {
				addO(in.Type().Underlying().(*types.Pointer).Elem())
			}
		case *ssa.MakeSlice:
			addA(in.Type().Underlying().(*types.Slice).Elem())
		case *ssa.Slice:
			if pt, ok := in.X.Type().Underlying().(*types.Pointer); ok {
				if at, ok := pt.Elem().Underlying().(*types.Array); ok {
					addA(at.Elem())
				}
			}
		case *ssa.Convert:
			if sl, ok := in.Type().Underlying().(*types.Slice); ok && isString(in.X.Type()) {
				addA(sl.Elem())
			}
		case ssa.CallInstruction:
			com := in.Common()
			if b, ok := com.Value.(*ssa.Builtin); ok && b.Name() == "append" {
				addA(com.Args[0].Type().Underlying().(*types.Slice).Elem())
			}
			if depth < 4 {
				if mc, ok := com.Value.(*ssa.MakeClosure); ok {
					scanFn(mc.Fn.(*ssa.Function), depth+1)
				} else if f, ok := com.Value.(*ssa.Function); ok && x.isInlined(f) {
					scanFn(f, depth+1)
				}
			}
		}
	}
	for b := range li.blocks {
		for _, in := range b.Instrs {
			scan(in, 0)
		}
	}
	return
}

// ---- cut points -----------------------------------------------------------------
// `cut [tags] name: e at "stmt"` places a cut at the entry of the basic block that contains the statement
// (a call, return or if with that source text). Every path arriving there proves the cut's clauses and ends;
// one path continues from an arbitrary state of the enclosing loop (everything the loop may write is havocked,
// the path condition is reset to the loop head's) in which only the cut's clauses are known. This merges the
// paths through the code before the cut. SSA values computed before the cut and used after it must be the same
// on every arriving path (checked; otherwise the function is reported as unsupported).

func (x *executor) cutsAt(fr *frame, b *ssa.BasicBlock) []*atClause {
	if fr.fc == nil {
		return nil
	}
	has := false
	for _, at := range fr.fc.ats {
		if at.kind == "cut" {
			has = true
		}
	}
	if !has {
		return nil
	}
	var out []*atClause
	for _, in := range b.Instrs {
		switch in.(type) {
		case *ssa.DebugRef, *ssa.If, *ssa.Jump:
			continue
		}
		if !in.Pos().IsValid() {
			continue
		}
		txt := x.sourceOf(fr.fn, in)
		for _, at := range fr.fc.ats {
			if at.kind == "cut" && stmtMatches(fr.effStmt(at, in.Pos()), txt) {
				dup := false
				for _, o := range out {
					if o == at {
						dup = true
					}
				}
				if !dup {
					out = append(out, at)
				}
			}
		}
	}
	return out
}

// liveAcross: SSA values that are live at the entry of b: used in a block reachable from b (b included)
// along a path that does not pass through the value's definition.
func liveAcross(b *ssa.BasicBlock) map[ssa.Value]bool {
	out := map[ssa.Value]bool{}
	uses := map[*ssa.BasicBlock]map[ssa.Value]bool{}
	for _, bb := range b.Parent().Blocks {
		u := map[ssa.Value]bool{}
		for _, in := range bb.Instrs {
			for _, op := range in.Operands(nil) {
				if *op != nil {
					u[*op] = true
				}
			}
		}
		uses[bb] = u
	}
	cands := map[ssa.Value]bool{}
	for _, u := range uses {
		for v := range u {
			cands[v] = true
		}
	}
	for v := range cands {
		var def *ssa.BasicBlock
		if in, ok := v.(ssa.Instruction); ok {
			def = in.Block()
		}
		if def == b {
			continue
		}
		seen := map[*ssa.BasicBlock]bool{}
		var visit func(bb *ssa.BasicBlock) bool
		visit = func(bb *ssa.BasicBlock) bool {
			if seen[bb] || bb == def {
				return false
			}
			seen[bb] = true
			if uses[bb][v] {
				return true
			}
			for _, s := range bb.Succs {
				if visit(s) {
					return true
				}
			}
			return false
		}
		if visit(b) {
			out[v] = true
		}
	}
	return out
}

// cutBetween: the blocks of the loop that may execute between the loop head and the cut block b and whose
// effects can differ from path to path: blocks from which b is reachable inside the loop, minus the linear
// prefix of b's dominator chain (header, then blocks with that single predecessor), minus b itself.
func cutBetween(li *loopInfo, b *ssa.BasicBlock) map[*ssa.BasicBlock]bool {
	reach := map[*ssa.BasicBlock]bool{}
	var back func(x *ssa.BasicBlock)
	back = func(x *ssa.BasicBlock) {
		for _, p := range x.Preds {
			if !li.blocks[p] || reach[p] || p == li.header {
				continue
			}
			reach[p] = true
			back(p)
		}
	}
	back(b)
	// dominator chain header .. b
	var chain []*ssa.BasicBlock
	for d := b; d != nil; d = d.Idom() {
		chain = append([]*ssa.BasicBlock{d}, chain...)
		if d == li.header {
			break
		}
	}
	if len(chain) > 0 && chain[0] == li.header {
		for k := 1; k < len(chain); k++ {
			d := chain[k]
			if len(d.Preds) == 1 && d.Preds[0] == chain[k-1] {
				delete(reach, d)
			} else {
				break
			}
		}
	}
	delete(reach, b)
	return reach
}

func sameVal(a, b Val) bool {
	if a.ptr != nil || b.ptr != nil {
		if a.ptr == nil || b.ptr == nil {
			return false
		}
		if a.ptr.kind != b.ptr.kind || a.ptr.cell != b.ptr.cell {
			return false
		}
		if (a.ptr.ref == nil) != (b.ptr.ref == nil) || (a.ptr.ref != nil && !same(a.ptr.ref, b.ptr.ref)) {
			return false
		}
		return len(a.ptr.path) == len(b.ptr.path)
	}
	if a.fn != nil || b.fn != nil {
		if a.fn == nil || b.fn == nil || a.fn.fn != b.fn.fn || len(a.fn.bindings) != len(b.fn.bindings) {
			return false
		}
		for i := range a.fn.bindings {
			if !sameVal(a.fn.bindings[i], b.fn.bindings[i]) {
				return false
			}
		}
		return true
	}
	if len(a.tup) != len(b.tup) {
		return false
	}
	for i := range a.tup {
		if !sameVal(a.tup[i], b.tup[i]) {
			return false
		}
	}
	if (a.t == nil) != (b.t == nil) {
		return false
	}
	if a.t != nil && !same(a.t, b.t) {
		return false
	}
	return true
}

func (x *executor) enterCut(m *machine, fr *frame, cuts []*atClause) bool {
	b := fr.block
	// innermost enclosing loop
	var li *loopInfo
	for _, l := range fr.loops {
		if l.blocks[b] && (li == nil || len(l.blocks) < len(li.blocks)) {
			li = l
		}
	}
	if li == nil {
		panic(unsupported("cut outside a loop in " + fr.key))
	}
	lr := fr.active[li.header]
	if lr == nil || lr.headSt == nil {
		panic(unsupported("cut reached without an active loop in " + fr.key))
	}
	pos := b.Instrs[0].Pos()
	for _, in := range b.Instrs {
		if in.Pos().IsValid() {
			pos = in.Pos()
			break
		}
	}
	fr.curLoop = li
	defer func() { fr.curLoop = nil }()
	ev := x.loopEval(x.contractEval(m, fr, pos, ""), lr)
	for i, at := range cuts {
		at.used = true
		ev.where = at.cl.line
		x.oblige(m, "cut", clauseName(at.cl, i), ev.evalBool(at.cl.e), at.cl.tags, at.cl.text)
	}
	live := liveAcross(b)
	if lr.cuts == nil {
		lr.cuts = map[*ssa.BasicBlock]map[ssa.Value]Val{}
	}
	if rec, ok := lr.cuts[b]; ok {
		for v, rv := range rec {
			cv, have := fr.env[v]
			if !have || !sameVal(cv, rv) {
				panic(unsupported(fmt.Sprintf("cut in %s: value %s computed before the cut differs between paths", fr.key, v.Name())))
			}
		}
		for cell, fv := range lr.cutFns[b] {
			if cv, have := m.st.cells[cell]; !have || !sameVal(cv, fv) {
				panic(unsupported(fmt.Sprintf("cut in %s: function value %s differs between paths", fr.key, cell.name)))
			}
		}
		for v := range live {
			if _, have := fr.env[v]; have {
				if _, recd := rec[v]; !recd {
					panic(unsupported(fmt.Sprintf("cut in %s: value %s is defined on some paths only", fr.key, v.Name())))
				}
			}
		}
		return false
	}
	rec := map[ssa.Value]Val{}
	for v := range live {
		if cv, have := fr.env[v]; have {
			rec[v] = cv
		}
	}
	lr.cuts[b] = rec
	// continuation: arbitrary state of the loop in which the cut's clauses hold
	n := len(lr.headSt.pc)
	if len(m.st.pc) < n || (n > 0 && m.st.pc[n-1] != lr.headSt.pc[n-1]) {
		panic("cut: path condition is not an extension of the loop head's")
	}
	m.st.pc = m.st.pc[:n:n]
	kept := map[*Cell]Val{}
	x.havocLoopRegion(m, fr, li, lr, kept, cutBetween(li, b))
	if lr.cutFns == nil {
		lr.cutFns = map[*ssa.BasicBlock]map[*Cell]Val{}
	}
	lr.cutFns[b] = kept
	ev = x.loopEval(x.contractEval(m, fr, pos, ""), lr)
	for _, at := range cuts {
		ev.where = at.cl.line
		m.st.assume(ev.evalBool(at.cl.e))
	}
	cov := x.oblige(m, "cover", "cut."+clauseName(cuts[0].cl, 0), tFalse, nil, "cut point reachable under its clauses")
	cov.expectSat = true
	return true
}

// occurrenceOf: the 1-based rank, in source order, of instruction `in` among the call/return instructions of its
// function whose source text is txt (for `at "stmt" #k`)
func (x *executor) occurrenceOf(fn *ssa.Function, in ssa.Instruction, txt string) int {
	rank := 1
	for _, b := range fn.Blocks {
		for _, o := range b.Instrs {
			switch o.(type) {
			case *ssa.Call, *ssa.Return:
			default:
				continue
			}
			if o == in || !o.Pos().IsValid() || o.Pos() >= in.Pos() {
				continue
			}
			if x.sourceOf(fn, o) == txt {
				rank++
			}
		}
	}
	return rank
}

// ---- merge of the paths arriving at a top-level loop ---------------------------------------------------------
// `merge` in a loop section: every path that reaches the loop proves the invariants and ends; one path continues
// from a state that stands for all of them: the path condition is the function's entry condition, every local
// variable assigned before the loop (except parameters that are never reassigned), everything in the function's
// modifies clause and everything allocated so far are unknown, and only the loop invariants are known. SSA values
// computed before the loop and used in or after it are recomputed in that state when their definition is pure
// (loads, field/index addresses, len, conversions, arithmetic); other such values must be the same on every path.
func (x *executor) mergeAtLoop(m *machine, fr *frame, li *loopInfo) bool {
	if !fr.top {
		panic(unsupported("merge loop inside an inlined function " + fr.key))
	}
	for _, o := range fr.loops {
		if o != li && o.blocks[li.header] {
			panic(unsupported("merge loop nested in another loop in " + fr.key))
		}
	}
	fn := li.header.Parent()
	live := liveAcross(li.header)
	pure := func(in ssa.Instruction) bool {
		switch v := in.(type) {
		case *ssa.UnOp:
			return v.Op != token.ARROW
		case *ssa.FieldAddr, *ssa.Field, *ssa.IndexAddr, *ssa.Index, *ssa.BinOp, *ssa.Convert, *ssa.ChangeType, *ssa.Extract, *ssa.Slice:
			return true
		case *ssa.Call:
			if b, ok := v.Call.Value.(*ssa.Builtin); ok && (b.Name() == "len" || b.Name() == "cap") {
				return true
			}
		}
		return false
	}
	// values to recompute: pure definitions outside the loop that are live across the loop head, closed under operands
	remat := map[ssa.Instruction]bool{}
	var need func(v ssa.Value)
	need = func(v ssa.Value) {
		in, ok := v.(ssa.Instruction)
		if !ok || in.Block() == nil || li.blocks[in.Block()] || remat[in] {
			return
		}
		if _, isAlloc := v.(*ssa.Alloc); isAlloc {
			return
		}
		if !pure(in) {
			return
		}
		remat[in] = true
		for _, op := range in.Operands(nil) {
			if *op != nil {
				need(*op)
			}
		}
	}
	for v := range live {
		need(v)
	}
	// everything else that is live (or feeds a recomputed value) must agree between the paths
	fixed := map[ssa.Value]bool{}
	addFixed := func(v ssa.Value) {
		if in, ok := v.(ssa.Instruction); ok && remat[in] {
			return
		}
		switch v.(type) {
		case *ssa.Const, *ssa.Global, *ssa.Function, *ssa.Builtin, *ssa.Parameter, *ssa.FreeVar:
			return
		}
		if _, have := fr.env[v]; have {
			fixed[v] = true
		}
	}
	heapAllocs := map[*ssa.Alloc]bool{}
	for v := range live {
		if a, ok := v.(*ssa.Alloc); ok {
			// a local variable's cell: the continuing path uses its own (contents are unknown if assigned before the
			// loop); a heap object allocated before the loop: an unknown reference allocated since entry
			if a.Heap {
				if _, isCell := fr.cells[a]; !isCell {
					heapAllocs[a] = true
				}
			}
			continue
		}
		addFixed(v)
	}
	for in := range remat {
		for _, op := range in.Operands(nil) {
			if *op != nil {
				if _, isAlloc := (*op).(*ssa.Alloc); !isAlloc {
					addFixed(*op)
				}
			}
		}
	}
	if x.mergeRec == nil {
		x.mergeRec = map[*ssa.BasicBlock]map[ssa.Value]Val{}
	}
	if rec, ok := x.mergeRec[li.header]; ok {
		for v := range fixed {
			rv, recd := rec[v]
			if !recd || !sameVal(fr.env[v], rv) {
				panic(unsupported(fmt.Sprintf("merge loop %d in %s: value %s (%s) computed before the loop differs between paths", li.ordinal, fr.key, v.Name(), v.String())))
			}
		}
		return false
	}
	rec := map[ssa.Value]Val{}
	for v := range fixed {
		rec[v] = fr.env[v]
	}
	x.mergeRec[li.header] = rec
	// the merged state
	m.st.pc = append([]*T(nil), x.entry.pc...)
	pre := map[*ssa.BasicBlock]bool{}
	for _, b := range fn.Blocks {
		if !li.blocks[b] {
			pre[b] = true
		}
	}
	// parameters that are never reassigned keep their entry value
	paramOnly := map[*Cell]Val{}
	for a, cell := range fr.cells {
		if a == nil {
			continue
		}
		onlyParam, any := true, false
		for _, ref := range *a.Referrers() {
			if st, ok := ref.(*ssa.Store); ok && st.Addr == a {
				any = true
				if _, isP := st.Val.(*ssa.Parameter); !isP {
					onlyParam = false
				}
			} else if mc, isMC := ref.(*ssa.MakeClosure); isMC {
				// captured by a closure: fine if the closure only reads it
				cf := mc.Fn.(*ssa.Function)
				for bi, bv := range mc.Bindings {
					if bv != ssa.Value(a) || bi >= len(cf.FreeVars) {
						continue
					}
					for _, fref := range *cf.FreeVars[bi].Referrers() {
						switch fr2 := fref.(type) {
						case *ssa.UnOp, *ssa.DebugRef:
						case *ssa.Store:
							if fr2.Addr == ssa.Value(cf.FreeVars[bi]) {
								onlyParam = false
							}
						default:
							onlyParam = false
						}
					}
				}
			} else if _, isLoad := ref.(*ssa.UnOp); !isLoad {
				if _, isDbg := ref.(*ssa.DebugRef); !isDbg {
					onlyParam = false // address taken or passed on
				}
			}
		}
		if any && onlyParam {
			if v, ok := m.st.cells[cell]; ok {
				paramOnly[cell] = v
			}
		}
	}
	pli := &loopInfo{header: li.header, blocks: pre, ordinal: li.ordinal, pos: li.pos}
	plr := &loopRun{li: pli, allocMark: refConst(0), preSt: m.st.clone()}
	plr.modRefs = append(plr.modRefs, x.modSet...)
	kept := map[*Cell]Val{}
	x.havocLoopRegion(m, fr, pli, plr, kept, pre)
	for cell, v := range paramOnly {
		m.st.cells[cell] = v
	}
	// maps created before the loop: unknown contents for references allocated since entry
	base := m.st.lowRef()
	for k, old := range m.st.heaps {
		if !strings.HasPrefix(k, "maphas:") && !strings.HasPrefix(k, "mapval:") {
			continue
		}
		nh := x.c.d.fresh("Mmerge", old.sort)
		qcounter++
		r := atom(fmt.Sprintf("r!%d", qcounter), "Int")
		inRegion := mkAnd(app("<=", "Bool", base, r), app("<", "Bool", r, refConst(0)))
		m.st.assume(app(fmt.Sprintf("forall ((%s Int))", r.op), "Bool", mkImp(mkNot(inRegion), mkEq(mkSelect(nh, r), mkSelect(old, r)))))
		m.st.heaps[k] = nh
	}
	for a := range heapAllocs {
		if old, ok := fr.env[a]; ok && old.t != nil {
			r := x.c.d.fresh("mref", "Int")
			m.st.assume(mkAnd(app("<=", "Bool", m.st.lowRef(), r), app("<", "Bool", r, refConst(0))))
			fr.env[a] = Val{t: r, typ: old.typ}
		}
	}
	// recompute the pure values in definition order
	save := fr.block
	for _, b := range fn.Blocks {
		if li.blocks[b] {
			continue
		}
		for _, in := range b.Instrs {
			if remat[in] {
				fr.block = b
				x.step(m, fr, in)
			}
		}
	}
	fr.block = save
	x.note(fmt.Sprintf("loop %d of %s: the paths reaching the loop are merged (each proves the invariants; the continuation knows only the entry condition and the invariants)", li.ordinal, fr.key))
	return true
}

// effStmt: the statement text of an `at` clause as it reads in the current source. A local variable named in the
// text that no longer exists in the function (it was renamed) is replaced by the current name of the variable its
// `local name type#k` anchor points to; names that still exist are left alone, so using a different existing
// variable in the statement still breaks the anchor.
func (fr *frame) effStmt(at *atClause, pos token.Pos) string {
	if fr.fc == nil || fr.fc.localAnchors == nil {
		return at.stmt
	}
	type key struct {
		fn  *ssa.Function
		pos token.Pos
	}
	if at.eff != nil {
		if s, ok := at.eff[key{fr.fn, pos}]; ok {
			return s
		}
	}
	fs := token.NewFileSet()
	f := fs.AddFile("", fs.Base(), len(at.stmt))
	var sc scanner.Scanner
	sc.Init(f, []byte(at.stmt), nil, 0)
	var sb strings.Builder
	last := 0
	for {
		p, tok, lit := sc.Scan()
		if tok == token.EOF {
			break
		}
		if tok == token.IDENT {
			if a := fr.anchoredAllocAt(lit, pos); a != nil && a.Comment != lit {
				off := f.Offset(p)
				sb.WriteString(at.stmt[last:off])
				sb.WriteString(a.Comment)
				last = off + len(lit)
			}
		}
	}
	sb.WriteString(at.stmt[last:])
	out := sb.String()
	if at.eff == nil {
		at.eff = map[interface{}]string{}
	}
	at.eff[key{fr.fn, pos}] = out
	return out
}

// stmtMatches: does the statement text of an `at` clause denote the source statement txt? Equal texts do; a clause
// text without an argument list ("client.SendPoints") denotes every call of that function (robust against
// introducing or inlining a variable among the arguments); for calls of the log package the string literals are
// not compared (a reworded log message is still the same statement).
func stmtMatches(want, txt string) bool {
	if want == txt {
		return true
	}
	if !strings.Contains(want, "(") {
		return strings.HasPrefix(txt, want+"(")
	}
	if strings.HasPrefix(want, "log.") && strings.HasPrefix(txt, "log.") {
		return blankStrings(want) == blankStrings(txt)
	}
	return false
}

// blankStrings replaces the contents of interpreted string literals by nothing
func blankStrings(s string) string {
	var sb strings.Builder
	in := false
	for i := 0; i < len(s); i++ {
		c := s[i]
		if in {
			if c == '\\' && i+1 < len(s) {
				i++
				continue
			}
			if c == '"' {
				in = false
				sb.WriteByte(c)
			}
			continue
		}
		if c == '"' {
			in = true
		}
		sb.WriteByte(c)
	}
	return sb.String()
}
