package main

import (
	"fmt"
	"sort"
	"strings"
)

// T is an SMT term. Atoms have no args. Sort is the SMT sort text.
type T struct {
	op   string
	args []*T
	sort string
	def  *T       // for named atoms: the definition (used for folding only)
	bit  *bitMeta // int mode: this value is 1<<n or ^(1<<n) for the recorded n
}

// bitMeta records that an int-mode term is a single-bit pattern
type bitMeta struct {
	n   *T   // bit index (Int term)
	w   int  // width of the value
	neg bool // the complement ^(1<<n)
	shr *T   // non-nil: the value is shr>>n (logical shift of an unsigned value)
}

func atom(s, sort string) *T { return &T{op: s, sort: sort} }

func app(op, sort string, args ...*T) *T { return &T{op: op, args: args, sort: sort} }

var (
	tTrue  = atom("true", "Bool")
	tFalse = atom("false", "Bool")
)

func (t *T) isAtom() bool { return len(t.args) == 0 }

func (t *T) String() string {
	var sb strings.Builder
	t.write(&sb)
	return sb.String()
}

func (t *T) write(sb *strings.Builder) {
	if len(t.args) == 0 {
		sb.WriteString(t.op)
		return
	}
	sb.WriteByte('(')
	sb.WriteString(t.op)
	for _, a := range t.args {
		sb.WriteByte(' ')
		a.write(sb)
	}
	sb.WriteByte(')')
}

// look through a named definition (one level chain)
func (t *T) un() *T {
	for t.def != nil {
		t = t.def
	}
	return t
}

func same(a, b *T) bool {
	if a == b {
		return true
	}
	if a.op != b.op || len(a.args) != len(b.args) || a.sort != b.sort {
		return false
	}
	for i := range a.args {
		if !same(a.args[i], b.args[i]) {
			return false
		}
	}
	return true
}

func isTrue(t *T) bool  { return t.op == "true" && len(t.args) == 0 }
func isFalse(t *T) bool { return t.op == "false" && len(t.args) == 0 }

func mkNot(a *T) *T {
	if isTrue(a) {
		return tFalse
	}
	if isFalse(a) {
		return tTrue
	}
	if a.op == "not" && len(a.args) == 1 {
		return a.args[0]
	}
	return app("not", "Bool", a)
}

func mkAnd(xs ...*T) *T {
	var out []*T
	for _, x := range xs {
		if isTrue(x) {
			continue
		}
		if isFalse(x) {
			return tFalse
		}
		if x.op == "and" {
			out = append(out, x.args...)
			continue
		}
		out = append(out, x)
	}
	if len(out) == 0 {
		return tTrue
	}
	if len(out) == 1 {
		return out[0]
	}
	return app("and", "Bool", out...)
}

func mkOr(xs ...*T) *T {
	var out []*T
	for _, x := range xs {
		if isFalse(x) {
			continue
		}
		if isTrue(x) {
			return tTrue
		}
		out = append(out, x)
	}
	if len(out) == 0 {
		return tFalse
	}
	if len(out) == 1 {
		return out[0]
	}
	return app("or", "Bool", out...)
}

func mkImp(a, b *T) *T {
	if isTrue(a) {
		return b
	}
	if isFalse(a) || isTrue(b) {
		return tTrue
	}
	return app("=>", "Bool", a, b)
}

func mkEq(a, b *T) *T {
	if a.sort != b.sort {
		panic(fmt.Sprintf("mkEq sort mismatch: %s : %s vs %s : %s", a, a.sort, b, b.sort))
	}
	if same(a, b) {
		return tTrue
	}
	if a.sort == "Bool" {
		if isTrue(a) {
			return b
		}
		if isTrue(b) {
			return a
		}
		if isFalse(a) {
			return mkNot(b)
		}
		if isFalse(b) {
			return mkNot(a)
		}
	}
	// distinct numerals
	if isNumeral(a) && isNumeral(b) && a.op != b.op {
		return tFalse
	}
	return app("=", "Bool", a, b)
}

func isNumeral(t *T) bool {
	if len(t.args) == 0 {
		if t.op == "" {
			return false
		}
		c := t.op[0]
		if c >= '0' && c <= '9' {
			return true
		}
		if strings.HasPrefix(t.op, "#x") || strings.HasPrefix(t.op, "#b") {
			return true
		}
		return false
	}
	if t.op == "-" && len(t.args) == 1 && isNumeral(t.args[0]) {
		return true
	}
	return false
}

func mkIte(c, a, b *T) *T {
	if isTrue(c) {
		return a
	}
	if isFalse(c) {
		return b
	}
	if same(a, b) {
		return a
	}
	if a.sort == "Bool" {
		if isTrue(a) && isFalse(b) {
			return c
		}
		if isFalse(a) && isTrue(b) {
			return mkNot(c)
		}
	}
	return app("ite", a.sort, c, a, b)
}

// ---- datatypes -----------------------------------------------------------

type dtField struct {
	name string
	sort string
}

type dtCtor struct {
	name   string
	fields []dtField
}

type datatype struct {
	name  string
	ctors []*dtCtor
}

// mkCtor builds a constructor application
func mkCtor(dt *datatype, c *dtCtor, args ...*T) *T {
	if len(args) != len(c.fields) {
		panic("ctor arity " + c.name)
	}
	for i, a := range args {
		if a.sort != c.fields[i].sort {
			panic(fmt.Sprintf("ctor %s field %s: sort %s, want %s (term %s)", c.name, c.fields[i].name, a.sort, c.fields[i].sort, a))
		}
	}
	if len(args) == 0 {
		return atom(c.name, dt.name)
	}
	return app(c.name, dt.name, args...)
}

// mkSel selects field i of ctor c from x, folding through constructors.
func mkSel(c *dtCtor, i int, x *T) *T {
	u := x.un()
	if u.op == c.name && len(u.args) == len(c.fields) {
		return u.args[i]
	}
	if u.op == "ite" {
		// push selection into ite when branches are constructors
		a, b := u.args[1].un(), u.args[2].un()
		if a.op == c.name && b.op == c.name {
			return mkIte(u.args[0], mkSel(c, i, u.args[1]), mkSel(c, i, u.args[2]))
		}
	}
	return app(c.fields[i].name, c.fields[i].sort, x)
}

// mkUpd returns x with field i replaced by v
func mkUpd(dt *datatype, c *dtCtor, i int, x, v *T) *T {
	args := make([]*T, len(c.fields))
	for j := range c.fields {
		if j == i {
			args[j] = v
		} else {
			args[j] = mkSel(c, j, x)
		}
	}
	return mkCtor(dt, c, args...)
}

func mkIs(c *dtCtor, x *T) *T {
	u := x.un()
	if len(u.args) == len(c.fields) && u.op == c.name {
		return tTrue
	}
	return app("(_ is "+c.name+")", "Bool", x)
}

// ---- arrays --------------------------------------------------------------

func arraySort(idx, elem string) string { return "(Array " + idx + " " + elem + ")" }

func arrayElemSort(s string) (idx, elem string) {
	// s = (Array I E) ; split at top-level
	if !strings.HasPrefix(s, "(Array ") {
		panic("not array sort: " + s)
	}
	body := s[len("(Array ") : len(s)-1]
	depth := 0
	for i := 0; i < len(body); i++ {
		switch body[i] {
		case '(':
			depth++
		case ')':
			depth--
		case ' ':
			if depth == 0 {
				return body[:i], body[i+1:]
			}
		}
	}
	panic("bad array sort " + s)
}

// normIdx: ix(c1, c2) with two numerals denotes the numeral c1+c2 (used only to compare indices syntactically)
func normIdx(t *T) *T {
	if t.op == "ix" && len(t.args) == 2 && isNumeral(t.args[0]) && isNumeral(t.args[1]) && len(t.args[0].args) == 0 && len(t.args[1].args) == 0 {
		var a, b int64
		if _, err := fmt.Sscan(t.args[0].op, &a); err == nil {
			if _, err := fmt.Sscan(t.args[1].op, &b); err == nil {
				return atom(fmt.Sprint(a+b), "Int")
			}
		}
	}
	return t
}

func mkSelect(a, i0 *T) *T {
	_, es := arrayElemSort(a.sort)
	u := a.un()
	i := normIdx(i0)
	for u.op == "store" && len(u.args) == 3 {
		if same(normIdx(u.args[1]), i) {
			return u.args[2]
		}
		if isNumeral(normIdx(u.args[1])) && isNumeral(i) {
			// distinct numerals: skip this store
			u = u.args[0].un()
			continue
		}
		break
	}
	if u.op == "store" {
		return app("select", es, u, i0)
	}
	return app("select", es, a, i0)
}

func mkStore(a, i, v *T) *T {
	return app("store", a.sort, a, i, v)
}

// ---- declarations registry ----------------------------------------------

type decls struct {
	sorts     []string    // uninterpreted sorts
	datatypes []*datatype // in dependency order
	dtByName  map[string]*datatype
	funs      map[string]string // name -> "(declare-fun ...)" text
	funOrder  []string
	consts    map[string]string // name -> sort
	constOrd  []string
	axioms    []namedAxiom
	defs      []string // define-fun texts in order
	defNames  map[string]bool
}

type namedAxiom struct {
	name string
	t    *T
}

func newDecls() *decls {
	return &decls{dtByName: map[string]*datatype{}, funs: map[string]string{}, consts: map[string]string{}, defNames: map[string]bool{}}
}

func (d *decls) sortDecl(name string) {
	for _, s := range d.sorts {
		if s == name {
			return
		}
	}
	d.sorts = append(d.sorts, name)
}

func (d *decls) fun(name string, argSorts []string, ret string) {
	if _, ok := d.funs[name]; ok {
		return
	}
	d.funs[name] = fmt.Sprintf("(declare-fun %s (%s) %s)", name, strings.Join(argSorts, " "), ret)
	d.funOrder = append(d.funOrder, name)
}

func (d *decls) constant(name, sort string) *T {
	if s, ok := d.consts[name]; ok {
		if s != sort {
			panic("const redeclared with other sort: " + name + " " + s + " vs " + sort)
		}
		return atom(name, sort)
	}
	d.consts[name] = sort
	d.constOrd = append(d.constOrd, name)
	return atom(name, sort)
}

var freshCounter int

func (d *decls) fresh(prefix, sort string) *T {
	freshCounter++
	return d.constant(fmt.Sprintf("%s!%d", sanitize(prefix), freshCounter), sort)
}

func sanitize(s string) string {
	var sb strings.Builder
	for _, r := range s {
		switch {
		case r >= 'a' && r <= 'z', r >= 'A' && r <= 'Z', r >= '0' && r <= '9', r == '_', r == '.', r == '!', r == '$':
			sb.WriteRune(r)
		case r == '*':
			sb.WriteString("P")
		case r == '[' || r == ']':
			sb.WriteString("_")
		case r == '/':
			sb.WriteString("_")
		default:
			sb.WriteString("_")
		}
	}
	return sb.String()
}

func (d *decls) render(sb *strings.Builder) {
	for _, s := range d.sorts {
		fmt.Fprintf(sb, "(declare-sort %s 0)\n", s)
	}
	if len(d.datatypes) > 0 {
		// one mutually recursive block
		sb.WriteString("(declare-datatypes (")
		for _, dt := range d.datatypes {
			fmt.Fprintf(sb, "(%s 0) ", dt.name)
		}
		sb.WriteString(") (\n")
		for _, dt := range d.datatypes {
			sb.WriteString(" (")
			for _, c := range dt.ctors {
				sb.WriteString("(" + c.name)
				for _, f := range c.fields {
					fmt.Fprintf(sb, " (%s %s)", f.name, f.sort)
				}
				sb.WriteString(") ")
			}
			sb.WriteString(")\n")
		}
		sb.WriteString("))\n")
	}
	for _, n := range d.funOrder {
		sb.WriteString(d.funs[n])
		sb.WriteByte('\n')
	}
	for _, n := range d.constOrd {
		fmt.Fprintf(sb, "(declare-const %s %s)\n", n, d.consts[n])
	}
	for _, df := range d.defs {
		sb.WriteString(df)
		sb.WriteByte('\n')
	}
}

// collect free constant names used in terms (for reporting / pruning)
func collectAtoms(t *T, m map[string]bool) {
	if len(t.args) == 0 {
		m[t.op] = true
		return
	}
	for _, a := range t.args {
		collectAtoms(a, m)
	}
}

func sortedKeys(m map[string]bool) []string {
	var ks []string
	for k := range m {
		ks = append(ks, k)
	}
	sort.Strings(ks)
	return ks
}

// size of a term (number of nodes), capped
func (t *T) size(cap int) int {
	n := 1
	for _, a := range t.args {
		n += a.size(cap - n)
		if n > cap {
			return n
		}
	}
	return n
}
