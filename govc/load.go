package main

import (
	"fmt"
	"go/ast"
	"go/token"
	"go/types"
	"math"
	"os"
	"sort"
	"strings"

	"golang.org/x/tools/go/packages"
	"golang.org/x/tools/go/ssa"
	"golang.org/x/tools/go/ssa/ssautil"
)

func mathFloat64bits(f float64) uint64 { return math.Float64bits(f) }
func mathFloat32bits(f float32) uint32 { return math.Float32bits(f) }

type program struct {
	fset     *token.FileSet
	pkgs     []*packages.Package
	prog     *ssa.Program
	spkgs    map[string]*ssa.Package // by package name (last path element)
	ppkgs    map[string]*packages.Package
	funcs    map[string]*ssa.Function // "pkg.(*T).M", "pkg.F", "pkg.F$1"
	srcCache map[string][]byte
}

const repoModule = "github.com/simpleiot/simpleiot"

func loadProgram(repo string, pkgPaths []string) (*program, error) {
	cfg := &packages.Config{
		Mode:       packages.LoadAllSyntax,
		Dir:        repo,
		BuildFlags: []string{"-tags=verif"},
		Env:        append(os.Environ(), "GOFLAGS=-mod=mod", "GOPROXY=off", "GOSUMDB=off", "GOTOOLCHAIN=local"),
	}
	pkgs, err := packages.Load(cfg, pkgPaths...)
	if err != nil {
		return nil, err
	}
	nerr := 0
	packages.Visit(pkgs, nil, func(p *packages.Package) {
		for _, e := range p.Errors {
			if strings.HasPrefix(p.PkgPath, repoModule) {
				fmt.Fprintf(os.Stderr, "load error %s: %v\n", p.PkgPath, e)
				nerr++
			}
		}
	})
	if nerr > 0 {
		return nil, fmt.Errorf("%d load errors", nerr)
	}
	prog, spkgs := ssautil.AllPackages(pkgs, ssa.NaiveForm|ssa.GlobalDebug)
	p := &program{fset: pkgs[0].Fset, pkgs: pkgs, prog: prog, spkgs: map[string]*ssa.Package{}, ppkgs: map[string]*packages.Package{}, funcs: map[string]*ssa.Function{}, srcCache: map[string][]byte{}}
	for i, sp := range spkgs {
		if sp == nil {
			continue
		}
		sp.Build()
		p.spkgs[sp.Pkg.Name()] = sp
		p.ppkgs[sp.Pkg.Name()] = pkgs[i]
	}
	// build all repo packages reachable (for callee bodies used by inline)
	for _, sp := range prog.AllPackages() {
		if strings.HasPrefix(sp.Pkg.Path(), repoModule) {
			sp.Build()
			if _, ok := p.spkgs[sp.Pkg.Name()]; !ok {
				p.spkgs[sp.Pkg.Name()] = sp
			}
		}
	}
	packages.Visit(pkgs, nil, func(pp *packages.Package) {
		if strings.HasPrefix(pp.PkgPath, repoModule) {
			if _, ok := p.ppkgs[pp.Name]; !ok {
				p.ppkgs[pp.Name] = pp
			}
		}
	})
	for _, sp := range p.spkgs {
		p.indexPackage(sp)
	}
	return p, nil
}

func (p *program) indexPackage(sp *ssa.Package) {
	pn := sp.Pkg.Name()
	var add func(f *ssa.Function, name string)
	add = func(f *ssa.Function, name string) {
		p.funcs[name] = f
		for i, af := range f.AnonFuncs {
			add(af, fmt.Sprintf("%s$%d", name, i+1))
		}
	}
	for _, m := range sp.Members {
		switch m := m.(type) {
		case *ssa.Function:
			add(m, pn+"."+m.Name())
		case *ssa.Type:
			nt, ok := m.Type().(*types.Named)
			if !ok {
				continue
			}
			if nt.TypeParams() != nil && nt.TypeParams().Len() > 0 {
				// generic type: index the (uninstantiated) method bodies
				for i := 0; i < nt.NumMethods(); i++ {
					fn := p.prog.FuncValue(nt.Method(i))
					if fn == nil || fn.Signature.Recv() == nil {
						continue
					}
					add(fn, pn+"."+recvString(fn.Signature.Recv().Type())+"."+fn.Name())
				}
				continue
			}
			for _, ptr := range []bool{false, true} {
				var recv types.Type = nt
				if ptr {
					recv = types.NewPointer(nt)
				}
				ms := p.prog.MethodSets.MethodSet(recv)
				for i := 0; i < ms.Len(); i++ {
					sel := ms.At(i)
					fn := p.prog.MethodValue(sel)
					if fn == nil || fn.Synthetic != "" {
						continue
					}
					// name by declared receiver
					sig := fn.Signature
					if sig.Recv() == nil {
						continue
					}
					add(fn, pn+"."+recvString(sig.Recv().Type())+"."+fn.Name())
				}
			}
		}
	}
}

func recvString(t types.Type) string {
	if pt, ok := t.(*types.Pointer); ok {
		return "(*" + namedName(pt.Elem()) + ")"
	}
	return "(" + namedName(t) + ")"
}

func namedName(t types.Type) string {
	if n, ok := t.(*types.Named); ok {
		s := n.Obj().Name()
		if n.TypeParams() != nil && n.TypeParams().Len() > 0 {
			s += "[T]"
		} else if n.TypeArgs() != nil && n.TypeArgs().Len() > 0 {
			s += "[T]"
		}
		return s
	}
	return t.String()
}

// funcKey gives the contract key of an ssa function (inverse of lookup)
func (p *program) funcKey(f *ssa.Function) string {
	if f == nil {
		return ""
	}
	if f.Parent() != nil {
		par := f.Parent()
		for i, af := range par.AnonFuncs {
			if af == f {
				return fmt.Sprintf("%s$%d", p.funcKey(par), i+1)
			}
		}
	}
	if f.Origin() != nil {
		f = f.Origin()
	}
	pn := ""
	if f.Pkg != nil {
		pn = f.Pkg.Pkg.Name()
		if !strings.HasPrefix(f.Pkg.Pkg.Path(), repoModule) {
			pn = f.Pkg.Pkg.Path()
		}
	} else if f.Object() != nil && f.Object().Pkg() != nil {
		pn = f.Object().Pkg().Path()
	}
	if f.Signature.Recv() != nil {
		return pn + "." + recvString(f.Signature.Recv().Type()) + "." + f.Name()
	}
	return pn + "." + f.Name()
}

func (p *program) src(pos token.Pos, end token.Pos) string {
	if !pos.IsValid() {
		return ""
	}
	ps := p.fset.Position(pos)
	b, ok := p.srcCache[ps.Filename]
	if !ok {
		b, _ = os.ReadFile(ps.Filename)
		p.srcCache[ps.Filename] = b
	}
	if !end.IsValid() {
		return ""
	}
	pe := p.fset.Position(end)
	if ps.Offset < 0 || pe.Offset > len(b) || ps.Offset > pe.Offset {
		return ""
	}
	return string(b[ps.Offset:pe.Offset])
}

// ---- loops ----------------------------------------------------------------

type loopInfo struct {
	header  *ssa.BasicBlock
	blocks  map[*ssa.BasicBlock]bool
	ordinal int
	pos     token.Pos
}

// findLoops identifies natural loops via back edges (target dominates source).
func findLoops(f *ssa.Function) []*loopInfo {
	byHeader := map[*ssa.BasicBlock]*loopInfo{}
	for _, b := range f.Blocks {
		for _, s := range b.Succs {
			if s.Dominates(b) {
				li := byHeader[s]
				if li == nil {
					li = &loopInfo{header: s, blocks: map[*ssa.BasicBlock]bool{s: true}}
					byHeader[s] = li
				}
				// add natural loop of back edge b->s
				var stack []*ssa.BasicBlock
				if !li.blocks[b] {
					li.blocks[b] = true
					stack = append(stack, b)
				}
				for len(stack) > 0 {
					x := stack[len(stack)-1]
					stack = stack[:len(stack)-1]
					for _, pr := range x.Preds {
						if !li.blocks[pr] {
							li.blocks[pr] = true
							stack = append(stack, pr)
						}
					}
				}
			}
		}
	}
	var loops []*loopInfo
	for _, li := range byHeader {
		li.pos = loopPos(li)
		loops = append(loops, li)
	}
	sort.Slice(loops, func(i, j int) bool {
		if loops[i].pos != loops[j].pos {
			return loops[i].pos < loops[j].pos
		}
		return loops[i].header.Index < loops[j].header.Index
	})
	for i, l := range loops {
		l.ordinal = i + 1
	}
	return loops
}

func loopPos(li *loopInfo) token.Pos {
	// smallest valid position among instructions in the loop
	best := token.NoPos
	for b := range li.blocks {
		for _, in := range b.Instrs {
			if _, ok := in.(*ssa.DebugRef); ok {
				continue
			}
			p := in.Pos()
			if p.IsValid() && (best == token.NoPos || p < best) {
				best = p
			}
		}
	}
	return best
}

// enclosing for/range statements of a function, in source order: used to give
// loops a stable ordinal that matches the source pre-order.
func sourceLoops(f *ssa.Function) []ast.Node {
	var out []ast.Node
	syn := f.Syntax()
	if syn == nil {
		return nil
	}
	var body *ast.BlockStmt
	switch n := syn.(type) {
	case *ast.FuncDecl:
		body = n.Body
	case *ast.FuncLit:
		body = n.Body
	}
	if body == nil {
		return nil
	}
	ast.Inspect(body, func(n ast.Node) bool {
		switch n.(type) {
		case *ast.FuncLit:
			return false
		case *ast.ForStmt, *ast.RangeStmt:
			out = append(out, n)
		}
		return true
	})
	return out
}

// initialiserContains reports whether the package-level variable's initialiser source contains text
func (p *program) initialiserContains(pkg, name, text string) bool {
	pp := p.ppkgs[pkg]
	if pp == nil {
		return false
	}
	for _, f := range pp.Syntax {
		// local `name := "..."` definitions inside functions count too (e.g. a DSN assembled in a constructor)
		found := false
		ast.Inspect(f, func(n ast.Node) bool {
			as, ok := n.(*ast.AssignStmt)
			if !ok || as.Tok != token.DEFINE {
				return true
			}
			for i, l := range as.Lhs {
				if id, ok := l.(*ast.Ident); ok && id.Name == name && i < len(as.Rhs) {
					if strings.Contains(p.src(as.Rhs[i].Pos(), as.Rhs[i].End()), text) {
						found = true
					}
				}
			}
			return true
		})
		if found {
			return true
		}
		for _, d := range f.Decls {
			gd, ok := d.(*ast.GenDecl)
			if !ok || gd.Tok != token.VAR {
				continue
			}
			for _, sp := range gd.Specs {
				vs := sp.(*ast.ValueSpec)
				for i, n := range vs.Names {
					if n.Name == name && i < len(vs.Values) {
						return strings.Contains(p.src(vs.Values[i].Pos(), vs.Values[i].End()), text)
					}
				}
			}
		}
	}
	return false
}
