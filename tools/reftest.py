#!/usr/bin/env python3
import re,subprocess,sys,os,glob,json
FMAP={
 'nodePoints':'C01 C04 C05','edgePoints':'C01 C04 C05','isAncestor':'C05 C04','updateHash':'C04 C05','updateHashHelper':'C04 C05','updateEdgeHash':'C04 C05','writeHashes':'C04 C05',
 'userCheck':'C09','up':'C06','initJwtKey':'C04','initMeta':'C04','handleNodePoints':'C04 C05 C06','handleEdgePoints':'C04 C05 C06','processPointsUpstream':'C06','processEdgePointsUpstream':'C06','handleAuthUser':'C09',
 'Run':'C07 C13','scan':'C07 C08','scanHelper':'C07','mapKey':'C07','newClientState':'C07','run':'C07','syncNode':'C02','sendNodesRemote':'C02','sendNodesLocal':'C02',
 'ruleProcessPoints':'C13','ruleRunActions':'C13','ruleInactiveActions':'C13','sendPoint':'C13','activeForTime':'C14 C13','filterWeekdays':'C14','filterDates':'C14',
 'Read':'C16','cobsDecodeInplace':'C16','cobsEncode':'C16','Write':'C16','SerialEncode':'C17','SerialDecode':'C17','exportNodesHelper':'C15','checkIDs':'C15','ImportNodes':'C15','GetNodesForUser':'C09',
 'ProcessRequest':'C18 C19','RespReadBits':'C19','RespReadRegs':'C19','Encode':'C19','Decode':'C19','ToPb':'C12','PbToPoint':'C12','PbDecodePoints':'C12','Collapse':'C01','ToSerial':'C17 C12','SerialToPoint':'C17 C12','ToPbNode':'C12','PbToNode':'C12','ServeHTTP':'C09','Valid':'C09','ValidToken':'C09',
}
def funcs_of(text):
    out={}
    for m in re.finditer(r'^func (?:\([^)]*\) )?(\w+)(?:\[[^\]]*\])?\(',text,re.M):
        out.setdefault(m.group(1),[]).append(m.start())
    starts=sorted((p,n) for n,ps in out.items() for p in ps)
    bodies={}
    for i,(p,n) in enumerate(starts):
        e=starts[i+1][0] if i+1<len(starts) else len(text)
        bodies.setdefault(n,[]).append(text[p:e])
    return bodies
res=[]
for d in sorted(glob.glob('/verif/refactorings/*/')):
    pf=d+'patch.diff'
    if not os.path.exists(pf): continue
    if os.path.exists(d+'result.json') and not os.environ.get('REDO'): 
        res.append(json.load(open(d+'result.json'))); continue
    files=[l[6:].strip() for l in open(pf) if l.startswith('+++ b/')]
    before={f:open('/repo/'+f).read() for f in files if os.path.exists('/repo/'+f)}
    r=subprocess.run(['git','-C','/repo','apply',pf],capture_output=True,text=True)
    if r.returncode!=0:
        print(d,'PATCH DOES NOT APPLY',r.stderr[:100]); continue
    props=set(); touched=[]
    for f in files:
        b=funcs_of(before.get(f,'')); a=funcs_of(open('/repo/'+f).read())
        for n in set(a)|set(b):
            if a.get(n)!=b.get(n):
                touched.append(n)
                for p in FMAP.get(n,'').split(): props.add(p)
    out={}
    pkgs=sorted({'./'+f.rsplit('/',1)[0] for f in files})
    bld=subprocess.run(['go','build']+pkgs,cwd='/repo',capture_output=True,text=True,env=dict(os.environ,GOFLAGS='-mod=mod',GOPROXY='off',GOSUMDB='off',GOTOOLCHAIN='local'))
    if bld.returncode!=0:
        out['build']='FAILS'
    else:
        for p in sorted(props):
            o=subprocess.run(['/verif/bin/govc','-repo','/repo','-verif','/verif','-prop',p,'-no-evidence'],capture_output=True,text=True)
            fl=[l.strip()[:170] for l in (o.stdout+o.stderr).splitlines() if 'failed obligation' in l or 'engine error' in l]
            out[p]='PASS' if (o.returncode==0 and not fl) else fl[:3]
    subprocess.run(['git','-C','/repo','apply','-R',pf])
    rec={'ref':os.path.basename(d.rstrip('/')),'touched':sorted(set(touched)),'results':out}
    json.dump(rec,open(d+'result.json','w'),indent=1)
    res.append(rec)
    print(rec['ref'],rec['touched'],{k:(v if v=='PASS' else 'ALARM '+str(v)) for k,v in out.items()},flush=True)
print('dirty:',subprocess.run(['git','-C','/repo','status','--short'],capture_output=True,text=True).stdout)
