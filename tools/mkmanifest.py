#!/usr/bin/env python3
"""Regenerates /verif/MANIFEST.json from the table below (keeps it valid and in one place)."""
import json, subprocess
props=[json.loads(l)['id'] for l in open('/verif/properties.jsonl')]
TECH="contract-based deductive verification: VC generation (symbolic execution against contracts) over go/ssa of the real functions, contracts in /repo/<pkg>/zz_verif_contracts.go, obligations discharged by z3 4.8.12 / z3 5.1.0 / cvc5 1.0"
COMMON="Trusted: go/packages+go/ssa (x/tools v0.29.0), the govc SSA->SMT translation, the SMT solvers; sequential execution (mutex operations, logging dropped); machine arithmetic is exact (wrap-around for narrow types, overflow obligations for 64-bit in int mode, bit-vectors in bv mode). "
CLAIMS={
 'C12':("proof","Point.ToPb/PbToPoint, ToSerial/SerialToPoint, NodeEdge.ToPbNode/PbToNode, the list codecs (Points.ToPb, PbDecodePoints, PbDecodeSerialPoints, PbDecodeNode, PbDecodeNodeRequest, PbDecodeNodes, PbDecodeNodesRequest, Nodes.ToPb/ToPbNodes), DecodeSerialHrPayload and the four NATS subject parsers are under contract: every field is copied in both directions (lemma functions compose encode+decode: all eight point fields, float value bit for bit, ns time), and every nil/bounds/slice obligation of the decoders is discharged for arbitrary decoded messages, payload bytes and subjects.",
   COMMON+"proto.Marshal/Unmarshal are library functions modelled natively (Unmarshal yields an arbitrary well-formed message of the target type, repeated message fields without nil elements, or an error; that Unmarshal inverts Marshal is assumed, not proved); ptypes.Timestamp/TimestampProto are assumed inverse on years 1..9999 and total on nil; bytes.Trim and strings.Split by thin contracts; the round trip of Tombstone needs it to fit int32 (stated as a precondition of that clause).","DESIGN.md §7 C12"),
 'C18':("proof","Every function the server's answer depends on (PDU.ProcessRequest, handleError and all Regs read/write methods) is under contract; ~1900 obligations (postconditions per function code, loop invariants and variants, frame, bounds/nil/shift/overflow safety) are regenerated from the current source on every run and all must be discharged, for every request byte string and every register file, with no bound.",
   COMMON+"The register provider is devirtualised to *Regs (precondition); Validate callbacks are pure functions; definitional axioms of the abstract register view (hasReg, regVal, regOK, hasCoil, coilVal, firstIdx_exists) and the bit axioms (bitof/setbit) are assumed.","DESIGN.md §7 C18"),
 'C19':("proof","RTU/TCP Encode/Decode, CheckRtuCrc, request builders, response decoders, the six Client methods, the twelve register conversions and six lemma functions (transport round trips; request built by the client -> processed by the server -> decoded as the client decodes it) are under contract; ~2600 obligations regenerated from source and discharged for all inputs.",
   COMMON+"The Transport interface contract is the environment assumption of the client (Read behaves like io.Reader, is given a 260-byte buffer, delivers one frame); RtuCrc is used as a deterministic function of its bytes (body checked for safety/termination only); end-to-end agreement is the composition of separately proved lemmas, not a proof about two running processes.","DESIGN.md §7 C19"),
 'C14':("proof","schedule.activeForTime, timeRanges.filterWeekdays/filterDates/in and timeRange.in are under contract; the postcondition is the property statement itself (active <=> exists a UTC day D allowed by the filters with t in [start(D), end(D or D+1))) over mathematical time, proved for every schedule with valid H:MM times, every weekday/date list and every instant; calendar accessors on a non-UTC Time are a failed obligation.",
   COMMON+"time.Time is modelled as (mathematical ns since the epoch, is-UTC flag); assumed about package time: a UTC day has 86400 s, Weekday = (day+4) mod 7, time.Date inverts Year/Month/Day; regexp/strconv parsing goes through uninterpreted functions keyed to the two regexp literals (the contract is conditional on hmValid(start/end)).","DESIGN.md §7 C14"),
}
NA={'C02':'convergence of two processes over link faults: a whole-history, two-process property; no per-function contract can state it and the generator has no model of NATS delivery (DESIGN §7/C02)',
'C07':'about interleavings of manager goroutines and store events; the generator verifies sequential code only (DESIGN §7/C07)',
'C20':'every clause is about schedules (races, deadlock, visibility); contracts over sequential code cannot decide it (DESIGN §7/C20)'}
PENDING='not claimed (yet): the contracts for this property have not been brought to the point where every obligation discharges on the unchanged tree; see DESIGN.md §9'
hooks=[l.split()[0] for l in subprocess.run(['git','-C','/repo','log','--format=%h %s'],capture_output=True,text=True).stdout.splitlines() if l.split(' ',1)[1].startswith('verif:')]
fixes=[l for l in subprocess.run(['git','-C','/repo','log','--format=%h %s'],capture_output=True,text=True).stdout.splitlines() if l.split(' ',1)[1].startswith('fix:')]
checks=[]
for pid in sorted(CLAIMS):
    lvl,text,note,ref=CLAIMS[pid]
    checks.append({"property_id":pid,"quick_cmd":"bin/check %s --tier quick"%pid,"thorough_cmd":"bin/check %s --tier thorough"%pid,
      "evidence_file":"/verif/evidence/%s.json"%pid,"replay_cmd_template":"bin/check %s --replay {path}"%pid,"engine":"govc",
      "level_claimed":{"category":lvl,"text":text,"design_ref":ref},"level_note":note,"technique":TECH})
m={"version":1,
 "setup_cmd":"cd /verif/govc && GOFLAGS=-mod=mod GOPROXY=off GOSUMDB=off GOTOOLCHAIN=local go build -o /verif/bin/govc . && cd /repo && GOFLAGS=-mod=mod GOPROXY=off GOSUMDB=off GOTOOLCHAIN=local go build ./...",
 "hooks":{"guard":"verif","enable":"go build -tags verif ./... (contracts: /repo/<pkg>/zz_verif_contracts.go, lemma functions: zz_verif_lemmas.go; govc loads packages with -tags=verif)",
   "baseline_off_cmd":"cd /repo && GOFLAGS=-mod=mod GOPROXY=off GOSUMDB=off GOTOOLCHAIN=local go test -p 1 -vet=off -count=1 ./...","source_commits":hooks,"add_only":True},
 "engines":[{"name":"govc","path":"/verif/govc","serves_properties":sorted(CLAIMS),"kind_free_text":"verification-condition generator for Go (go/packages + go/ssa naive form, symbolic execution against contracts, SMT-LIB output, solver portfolio)"}],
 "checks":checks,
 "notes":"fix: commits in /repo: "+"; ".join(fixes)+". See known_findings.json and DESIGN.md §6.",
 "not_applicable":[{"property_id":p,"reason":NA.get(p,PENDING)} for p in props if p not in CLAIMS]}
json.dump(m,open('/verif/MANIFEST.json','w'),indent=1)
print("claimed:",sorted(CLAIMS),"hooks:",hooks)
