#!/usr/bin/env python3
"""Bounded stand-in checks (C10, C11): reflect-driven code that the VC generator cannot reach is checked by
evaluating the property's contracts on the REAL functions over a stated finite domain (exhaustive in the
thorough tier). Labelled bounded everywhere; never counted as proved.

usage: bounded_check.py <prop> <tier>
The test file under /verif/bounded is injected into the package with `go test -overlay` (nothing is written to
/repo); it prints/writes one JSON result, which becomes the evidence."""
import json, os, subprocess, sys, tempfile, time, shutil

CFG = {
 'C10': dict(pkg='./data', test='TestVerifC10Roundtrip', src='/verif/bounded/c10_roundtrip_test.go', dst='/repo/data/zz_verif_c10_test.go',
             out='VERIF_C10_OUT', timeout='900s', bad='mismatches', cases='first_mismatches',
             obligation='bounded:C10.encode-decode-diff-merge',
             what='contracts A: Decode(Encode(x)) == x and B: MergePoints(DiffPoints(a,b), decode(a)) == b'),
 'C11': dict(pkg='./data', test='TestVerifC11NoPanic', src='/verif/bounded/c11_nopanic_test.go', dst='/repo/data/zz_verif_c11_test.go',
             out='VERIF_C11_OUT', timeout='1500s', bad='violations', cases='violation_classes',
             obligation='bounded:C11.no-panic',
             what='contracts N: Decode/MergePoints/MergeEdgePoints never panic and I: points of undeclared types change nothing'),
}

def main():
    prop, tier = sys.argv[1], sys.argv[2]
    seed = int(os.environ.get('VERIF_SEED', '1'))
    c = CFG[prop]
    t0 = time.time()
    scr = tempfile.mkdtemp(prefix='verif-bounded-', dir='/var/tmp')
    try:
        ov = os.path.join(scr, 'ov.json'); out = os.path.join(scr, 'out.json')
        json.dump({'Replace': {c['dst']: c['src']}}, open(ov, 'w'))
        env = dict(os.environ, GOFLAGS='-mod=mod', GOPROXY='off', GOSUMDB='off', GOTOOLCHAIN='local',
                   VERIF_TIER=tier, VERIF_SEED=str(seed))
        env[c['out']] = out
        # address-space limit: a change that lets a decoded key size an allocation must fail fast, not swap the machine
        cmd = 'ulimit -v 25000000; exec go test -overlay %s -vet=off -timeout %s -count=1 -run %s %s' % (ov, c['timeout'], c['test'], c['pkg'])
        p = subprocess.run(['bash', '-c', cmd], cwd='/repo', env=env, capture_output=True, text=True)
        log = (p.stdout + p.stderr)[-6000:]
        res = None
        if os.path.exists(out) and os.path.getsize(out) > 0:
            res = json.load(open(out))
    finally:
        shutil.rmtree(scr, ignore_errors=True)
    os.makedirs('/verif/replays/%s' % prop, exist_ok=True)
    for f in os.listdir('/verif/replays/%s' % prop):
        os.remove(os.path.join('/verif/replays/%s' % prop, f))
    known = [k for k in json.load(open('/verif/known_findings.json'))['findings'] if k['property'] == prop and k['status'] == 'open']
    violations = 0
    rc = 0
    if res is None:
        # the harness did not produce a result (does not compile against the changed code, timed out, crashed)
        rp = '/verif/replays/%s/harness-error.json' % prop
        json.dump({'obligation': c['obligation'], 'status': 'no result', 'output': log}, open(rp, 'w'), indent=1)
        print('VIOLATION property=%s replay=%s no-failing-input-found' % (prop, rp))
        print('  failed obligation: %s: the bounded harness produced no result (build error / timeout); output in the replay file' % c['obligation'])
        violations = 1; rc = 1
        res = {'evaluations': 0, 'distinct_nontrivial': 0, 'rule': 'harness produced no result', 'samples': ['none'], 'exhaustive': False}
    else:
        bad = int(res.get(c['bad'], 0)) + int(res.get('panics', 0) if c['bad'] != 'violations' else 0)
        if bad > 0 or p.returncode != 0:
            cases = res.get(c['cases']) or []
            unlisted = []
            for cs in cases:
                txt = json.dumps(cs, sort_keys=True)
                hit = [k for k in known if k.get('match') and k['match'] in txt]
                if hit:
                    print('KNOWN-FINDING: property=%s %s %s' % (prop, hit[0]['obligation'], hit[0]['what']))
                else:
                    unlisted.append(cs)
            if unlisted or not cases:
                rp = '/verif/replays/%s/failing-inputs.json' % prop
                json.dump({'obligation': c['obligation'], 'status': 'failed on the real code', 'contracts': c['what'],
                           'failing_cases': unlisted[:20], 'count': bad,
                           'how_to_replay': 'cd /repo && %s=/dev/stdout VERIF_TIER=%s go test -overlay <{"Replace":{"%s":"%s"}}> -vet=off -run %s %s' % (c['out'], tier, c['dst'], c['src'], c['test'], c['pkg']),
                           'output': log[-2000:]}, open(rp, 'w'), indent=1)
                print('VIOLATION property=%s replay=%s%s' % (prop, rp, '' if unlisted else ' no-failing-input-found'))
                print('  failed obligation: %s (%d failing cases; inputs in the replay file)' % (c['obligation'], bad))
                violations = bad; rc = 1
    cov = {
        'evaluations': int(res.get('evaluations', 0)),
        'distinct_nontrivial': int(res.get('distinct_nontrivial', 0)),
        'rule': 'BOUNDED stand-in, not a proof. ' + str(res.get('rule', '')),
        'samples': res.get('samples') or ['none'],
        'exhaustive': bool(res.get('exhaustive', False)),
        'contracts_evaluated': c['what'],
        'checker_cmd': '/verif/bin/check %s --tier %s' % (prop, tier),
        'functions_under_contract': [],
        'obligations_proved': 0,
        'why_bounded': 'Encode/Decode/DiffPoints/MergePoints are driven by package reflect over arbitrary struct shapes, strconv and Go maps; this is outside the subset of the govc VC generator (no reflect model, no general maps), so per the task brief a bounded check of the real functions against the property\'s contracts stands in',
        'harness_result': {k: v for k, v in res.items() if k not in ('samples', 'rule')},
    }
    ev = {'property_id': prop, 'tier': tier, 'seed': seed, 'level': 'exploration', 'coverage': cov,
          'assumptions': ['bounded: only the stated finite domain is explored; inputs outside it are not covered',
                          'domain preconditions: target is a non-nil pointer to a struct, tagged fields exported, map keys of type string exactly'],
          'wall_s': round(time.time() - t0, 2), 'violations': violations}
    json.dump(ev, open('/verif/evidence/%s.json' % prop, 'w'), indent=1)
    print('bounded %s: tier=%s evaluations=%d distinct_nontrivial=%d exhaustive=%s violations=%d (%.1fs)' % (
        prop, tier, cov['evaluations'], cov['distinct_nontrivial'], cov['exhaustive'], violations, time.time() - t0))
    sys.exit(rc)

main()
