#!/usr/bin/env python3
"""Bounded stand-in checks (C10, C11): reflect-driven code that the VC generator cannot reach is checked by
evaluating the property's contracts on the REAL functions over a stated finite domain (exhaustive in the
thorough tier). Labelled bounded everywhere; never counted as proved.

usage: bounded_check.py <prop> <tier>
The test file under /verif/bounded is injected into the package with `go test -overlay` (nothing is written to
/repo); it prints/writes one JSON result, which becomes the evidence."""
import json, os, subprocess, sys, tempfile, time, shutil

CFG = {
 'C03': [dict(pkg='./store', test='TestVerifC03HashHistories', src='/verif/bounded/c03_hash_history_test.go', dst='/repo/store/zz_verif_c03_test.go',
             out='VERIF_C03_OUT', timeout='1500s', bad='violations', cases='violation_classes',
             obligation='bounded:C03.hash-invariant',
             what='Inv: after every accepted write the stored hash of every edge equals the XOR of the CRCs of its node points, its edge points and the hashes of its child edges (recomputed independently); refused writes change no hash'),
         dict(pkg='./data', test='TestVerifC03CRC', src='/verif/bounded/c03_crc_test.go', dst='/repo/data/zz_verif_c03crc_test.go',
             out='VERIF_C03CRC_OUT', timeout='600s', bad='mismatches', cases='first_mismatches',
             obligation='bounded:C03.crc-definition',
             what='Point.CRC equals the documented definition, ignores Data/Tombstone/Origin and depends on time, type, key, text, value')],
 'C01': [dict(pkg='./store', test='TestVerifC01Histories', src='/verif/bounded/c01_history_test.go', dst='/repo/store/zz_verif_c01h_test.go',
             out='VERIF_C01H_OUT', timeout='1500s', bad='violations', cases='violation_classes',
             obligation='bounded:C01.delivery-histories',
             what='R: after any delivery history (orders, batch cuts, duplicates, stale re-sends) the points read for a node / an edge hold exactly one point per identity (type, key with "" read as "0"), equal in every field to the newest delivered point of that identity, and nothing else')],
 'C15': [dict(pkg='./client', test='TestVerifC15ExportImport', src='/verif/bounded/c15_export_import_test.go', dst='/repo/client/zz_verif_c15_test.go',
             out='VERIF_C15_OUT', timeout='1500s', bad='mismatches', cases='mismatch_classes', netns=True,
             obligation='bounded:C15.export-import',
             what='export then import (with and without id preservation) reproduces shape, types, points and edge points; ids replaced consistently incl. nodeID references; marker on the top description only; deleted nodes absent; YAML round trip of every corpus string')],
 'C10': dict(pkg='./data', test='TestVerifC10Roundtrip', src='/verif/bounded/c10_roundtrip_test.go', dst='/repo/data/zz_verif_c10_test.go',
             out='VERIF_C10_OUT', timeout='900s', bad='mismatches', cases='first_mismatches',
             obligation='bounded:C10.encode-decode-diff-merge',
             what='contracts A: Decode(Encode(x)) == x and B: MergePoints(DiffPoints(a,b), decode(a)) == b'),
 'C11': dict(pkg='./data', test='TestVerifC11NoPanic', src='/verif/bounded/c11_nopanic_test.go', dst='/repo/data/zz_verif_c11_test.go',
             out='VERIF_C11_OUT', timeout='1500s', bad='violations', cases='violation_classes',
             obligation='bounded:C11.no-panic',
             what='contracts N: Decode/MergePoints/MergeEdgePoints never panic and I: points of undeclared types change nothing'),
}

def run_leg(prop, tier, seed, c):
    """runs one harness; returns (result dict or None, log, go test exit code)"""
    scr = tempfile.mkdtemp(prefix='verif-bounded-', dir='/var/tmp')
    try:
        ov = os.path.join(scr, 'ov.json'); out = os.path.join(scr, 'out.json')
        json.dump({'Replace': {c['dst']: c['src']}}, open(ov, 'w'))
        env = dict(os.environ, GOFLAGS='-mod=mod', GOPROXY='off', GOSUMDB='off', GOTOOLCHAIN='local',
                   VERIF_TIER=tier, VERIF_SEED=str(seed))
        env[c['out']] = out
        cmd = 'ulimit -v 25000000; exec go test -p 1 -overlay %s -vet=off -timeout %s -count=1 -run %s %s' % (ov, c['timeout'], c['test'], c['pkg'])
        argv = ['bash', '-c', cmd]
        if c.get('netns') and shutil.which('unshare') and shutil.which('ip'):
            # the harness starts the repo's test server on fixed ports: give it a private network namespace so that
            # concurrent runs (other checks, other users of the machine) cannot interfere; falls back to the host
            # namespace where unshare is not permitted
            probe = subprocess.run(['unshare', '-n', 'bash', '-c', 'ip link set lo up'], capture_output=True)
            if probe.returncode == 0:
                argv = ['unshare', '-n', 'bash', '-c', 'ip link set lo up; ' + cmd]
        p = subprocess.run(argv, cwd='/repo', env=env, capture_output=True, text=True)
        log = (p.stdout + p.stderr)[-6000:]
        res = None
        if os.path.exists(out) and os.path.getsize(out) > 0:
            res = json.load(open(out))
        return res, log, p.returncode
    finally:
        shutil.rmtree(scr, ignore_errors=True)

def multi(prop, tier, seed, legs, as_leg):
    """several harnesses for one property (C03), or a bounded leg of a mixed check (--as-leg FILE: C15)"""
    t0 = time.time()
    os.makedirs('/verif/replays/%s' % prop, exist_ok=True)
    if not as_leg:
        for f in os.listdir('/verif/replays/%s' % prop):
            os.remove(os.path.join('/verif/replays/%s' % prop, f))
    known = [k for k in json.load(open('/verif/known_findings.json'))['findings'] if k['property'] == prop and k['status'] == 'open']
    rc = 0; violations = 0
    agg = {'evaluations': 0, 'distinct_nontrivial': 0, 'rule': [], 'samples': [], 'exhaustive': True, 'legs': {}}
    for c in legs:
        res, log, grc = run_leg(prop, tier, seed, c)
        name = c['obligation']
        if res is None:
            rp = '/verif/replays/%s/%s-harness-error.json' % (prop, name.split('.')[-1])
            json.dump({'obligation': name, 'status': 'no result', 'output': log}, open(rp, 'w'), indent=1)
            print('VIOLATION property=%s replay=%s no-failing-input-found' % (prop, rp))
            print('  failed obligation: %s: the bounded harness produced no result (build error / timeout / crash); output in the replay file' % name)
            rc = 1; violations += 1; agg['exhaustive'] = False
            agg['legs'][name] = 'NO RESULT'
            continue
        bad = int(res.get(c['bad'], 0))
        if bad > 0 or grc != 0:
            cases = res.get(c['cases']) or []
            unlisted = []
            for cs in cases:
                txt = json.dumps(cs, sort_keys=True)
                hit = [k for k in known if k.get('match') and all(m in txt for m in (k['match'] if isinstance(k['match'], list) else [k['match']]))]
                if hit:
                    print('KNOWN-FINDING: property=%s %s %s' % (prop, hit[0]['obligation'], hit[0]['what']))
                else:
                    unlisted.append(cs)
            if unlisted or not cases:
                rp = '/verif/replays/%s/%s-failing-inputs.json' % (prop, name.split('.')[-1])
                json.dump({'obligation': name, 'status': 'failed on the real code', 'contracts': c['what'], 'failing_cases': unlisted[:20], 'count': bad,
                           'how_to_replay': 'cd /repo && %s=/dev/stdout VERIF_TIER=%s go test -overlay <{"Replace":{"%s":"%s"}}> -vet=off -run %s %s' % (c['out'], tier, c['dst'], c['src'], c['test'], c['pkg']),
                           'output': log[-2000:]}, open(rp, 'w'), indent=1)
                print('VIOLATION property=%s replay=%s%s' % (prop, rp, '' if unlisted else ' no-failing-input-found'))
                print('  failed obligation: %s (%d failing cases; inputs in the replay file)' % (name, bad))
                rc = 1; violations += max(bad, 1)
        agg['evaluations'] += int(res.get('evaluations', 0))
        agg['distinct_nontrivial'] += int(res.get('distinct_nontrivial', 0))
        agg['rule'].append('[%s] %s' % (name, res.get('rule', '')))
        agg['samples'] += [str(x) for x in (res.get('samples') or [])][:3]
        agg['exhaustive'] = agg['exhaustive'] and bool(res.get('exhaustive', False))
        agg['legs'][name] = {k: v for k, v in res.items() if k not in ('samples', 'rule')}
    if as_leg:
        json.dump({'kind': 'bounded (enumeration over the stated finite domain; NOT a proof)', 'result': agg, 'violations': violations}, open(as_leg, 'w'))
        sys.exit(rc)
    cov = {'evaluations': agg['evaluations'], 'distinct_nontrivial': agg['distinct_nontrivial'],
           'rule': 'BOUNDED stand-in, not a proof. ' + ' || '.join(agg['rule']), 'samples': agg['samples'] or ['none'],
           'exhaustive': agg['exhaustive'], 'contracts_evaluated': [c['what'] for c in legs],
           'checker_cmd': '/verif/bin/check %s --tier %s' % (prop, tier), 'functions_under_contract': [], 'obligations_proved': 0,
           'why_bounded': 'the property is an invariant over whole histories of writes and graph shapes; the contracts that would carry it (hash propagation over a ghost table with a path-parity argument) were not built, so the real store is exercised over every history of a stated bounded family with an independent recomputation',
           'harness_result': agg['legs']}
    ev = {'property_id': prop, 'tier': tier, 'seed': seed, 'level': 'exploration', 'coverage': cov,
          'assumptions': ['bounded: only the stated finite domain is explored; histories, graph shapes and strings outside it are not covered'],
          'wall_s': round(time.time() - t0, 2), 'violations': violations}
    json.dump(ev, open('/verif/evidence/%s.json' % prop, 'w'), indent=1)
    print('bounded %s: tier=%s evaluations=%d distinct_nontrivial=%d exhaustive=%s violations=%d (%.1fs)' % (
        prop, tier, cov['evaluations'], cov['distinct_nontrivial'], cov['exhaustive'], violations, time.time() - t0))
    sys.exit(rc)

def main():
    prop, tier = sys.argv[1], sys.argv[2]
    seed = int(os.environ.get('VERIF_SEED', '1'))
    c = CFG[prop]
    if isinstance(c, list):
        as_leg = sys.argv[4] if len(sys.argv) > 4 and sys.argv[3] == '--as-leg' else None
        multi(prop, tier, seed, c, as_leg)
    t0 = time.time()
    scr = tempfile.mkdtemp(prefix='verif-bounded-', dir='/var/tmp')
    try:
        ov = os.path.join(scr, 'ov.json'); out = os.path.join(scr, 'out.json')
        json.dump({'Replace': {c['dst']: c['src']}}, open(ov, 'w'))
        env = dict(os.environ, GOFLAGS='-mod=mod', GOPROXY='off', GOSUMDB='off', GOTOOLCHAIN='local',
                   VERIF_TIER=tier, VERIF_SEED=str(seed))
        env[c['out']] = out
        # address-space limit: a change that lets a decoded key size an allocation must fail fast, not swap the machine
        cmd = 'ulimit -v 25000000; exec go test -overlay %s -vet=off -timeout %s -count=1 -run %s %s' % (ov, c['timeout'], c['test'], c['pkg'])
        p = subprocess.run(['bash', '-c', cmd], cwd='/repo', env=env, capture_output=True, text=True)
        log = (p.stdout + p.stderr)[-6000:]
        res = None
        if os.path.exists(out) and os.path.getsize(out) > 0:
            res = json.load(open(out))
    finally:
        shutil.rmtree(scr, ignore_errors=True)
    os.makedirs('/verif/replays/%s' % prop, exist_ok=True)
    for f in os.listdir('/verif/replays/%s' % prop):
        os.remove(os.path.join('/verif/replays/%s' % prop, f))
    known = [k for k in json.load(open('/verif/known_findings.json'))['findings'] if k['property'] == prop and k['status'] == 'open']
    violations = 0
    rc = 0
    if res is None:
        # the harness did not produce a result (does not compile against the changed code, timed out, crashed)
        rp = '/verif/replays/%s/harness-error.json' % prop
        json.dump({'obligation': c['obligation'], 'status': 'no result', 'output': log}, open(rp, 'w'), indent=1)
        print('VIOLATION property=%s replay=%s no-failing-input-found' % (prop, rp))
        print('  failed obligation: %s: the bounded harness produced no result (build error / timeout); output in the replay file' % c['obligation'])
        violations = 1; rc = 1
        res = {'evaluations': 0, 'distinct_nontrivial': 0, 'rule': 'harness produced no result', 'samples': ['none'], 'exhaustive': False}
    else:
        bad = int(res.get(c['bad'], 0)) + int(res.get('panics', 0) if c['bad'] != 'violations' else 0)
        if bad > 0 or p.returncode != 0:
            cases = res.get(c['cases']) or []
            unlisted = []
            for cs in cases:
                txt = json.dumps(cs, sort_keys=True)
                hit = [k for k in known if k.get('match') and all(m in txt for m in (k['match'] if isinstance(k['match'], list) else [k['match']]))]
                if hit:
                    print('KNOWN-FINDING: property=%s %s %s' % (prop, hit[0]['obligation'], hit[0]['what']))
                else:
                    unlisted.append(cs)
            if unlisted or not cases:
                rp = '/verif/replays/%s/failing-inputs.json' % prop
                json.dump({'obligation': c['obligation'], 'status': 'failed on the real code', 'contracts': c['what'],
                           'failing_cases': unlisted[:20], 'count': bad,
                           'how_to_replay': 'cd /repo && %s=/dev/stdout VERIF_TIER=%s go test -overlay <{"Replace":{"%s":"%s"}}> -vet=off -run %s %s' % (c['out'], tier, c['dst'], c['src'], c['test'], c['pkg']),
                           'output': log[-2000:]}, open(rp, 'w'), indent=1)
                print('VIOLATION property=%s replay=%s%s' % (prop, rp, '' if unlisted else ' no-failing-input-found'))
                print('  failed obligation: %s (%d failing cases; inputs in the replay file)' % (c['obligation'], bad))
                violations = bad; rc = 1
    cov = {
        'evaluations': int(res.get('evaluations', 0)),
        'distinct_nontrivial': int(res.get('distinct_nontrivial', 0)),
        'rule': 'BOUNDED stand-in, not a proof. ' + str(res.get('rule', '')),
        'samples': res.get('samples') or ['none'],
        'exhaustive': bool(res.get('exhaustive', False)),
        'contracts_evaluated': c['what'],
        'checker_cmd': '/verif/bin/check %s --tier %s' % (prop, tier),
        'functions_under_contract': [],
        'obligations_proved': 0,
        'why_bounded': 'Encode/Decode/DiffPoints/MergePoints are driven by package reflect over arbitrary struct shapes, strconv and Go maps; this is outside the subset of the govc VC generator (no reflect model, no general maps), so per the task brief a bounded check of the real functions against the property\'s contracts stands in',
        'harness_result': {k: v for k, v in res.items() if k not in ('samples', 'rule')},
    }
    ev = {'property_id': prop, 'tier': tier, 'seed': seed, 'level': 'exploration', 'coverage': cov,
          'assumptions': ['bounded: only the stated finite domain is explored; inputs outside it are not covered',
                          'domain preconditions: target is a non-nil pointer to a struct, tagged fields exported, map keys of type string exactly'],
          'wall_s': round(time.time() - t0, 2), 'violations': violations}
    json.dump(ev, open('/verif/evidence/%s.json' % prop, 'w'), indent=1)
    print('bounded %s: tier=%s evaluations=%d distinct_nontrivial=%d exhaustive=%s violations=%d (%.1fs)' % (
        prop, tier, cov['evaluations'], cov['distinct_nontrivial'], cov['exhaustive'], violations, time.time() - t0))
    sys.exit(rc)

main()
