import sys,subprocess
name,file,old,new=sys.argv[1:5]
s=open('/repo/'+file).read()
assert s.count(old)>=1,(name,'not found')
idx=int(sys.argv[5]) if len(sys.argv)>5 else 0
pos=-1
for _ in range(idx+1):
    pos=s.index(old,pos+1)
s2=s[:pos]+new+s[pos+len(old):]
open('/repo/'+file,'w').write(s2)
d=subprocess.run(['git','-C','/repo','diff','--',file],capture_output=True,text=True).stdout
open('/verif/selftest/'+name+'.diff','w').write(d)
subprocess.run(['git','-C','/repo','checkout','--',file])
print(name,len(d))
