#!/bin/bash
# Re-runs every claimed check on the current (clean) tree so that the committed evidence files are records of
# passing runs (selftests and seeded runs overwrite them with records of failing runs), then validates them.
cd /verif
[ -z "$(git -C /repo status --porcelain)" ] || { echo "/repo has uncommitted changes"; exit 2; }
rc=0
# optional arguments: the property ids to re-run (default: every claimed check); validation always covers all
PROPS="$*"; [ -n "$PROPS" ] || PROPS=$(python3 -c "import json;print(' '.join(c['property_id'] for c in json.load(open('MANIFEST.json'))['checks']))")
for p in $PROPS; do
  out=$(bin/check $p --tier quick 2>&1); r=$?
  echo "$p rc=$r $(echo "$out" | tail -1 | cut -c1-150)"
  [ $r -ne 0 ] && rc=1
done
python3-vt - <<'PY'
import json,jsonschema,glob,sys
sch=json.load(open('/root/.vp/EVIDENCE.schema.json'))
bad=0
claimed=[c['property_id'] for c in json.load(open('/verif/MANIFEST.json'))['checks']]
for p in claimed:
    f='/verif/evidence/%s.json'%p
    try:
        ev=json.load(open(f)); jsonschema.validate(ev,sch)
        cov=ev['coverage']
        if ev['level'] in ('proof','other') and cov.get('obligations')!=cov.get('discharged'):
            print('BAD',p,'discharged != obligations'); bad=1
        if ev.get('violations',0)!=0: print('BAD',p,'violations',ev['violations']); bad=1
        if ev['level']=='exploration' and (cov.get('evaluations',0)<1 or cov.get('distinct_nontrivial',0)<2): print('BAD',p,'empty exploration'); bad=1
    except Exception as e:
        print('BAD',p,e); bad=1
print('evidence files', 'INVALID' if bad else 'ok')
sys.exit(bad)
PY
[ $? -ne 0 ] && rc=1
exit $rc
