#!/bin/bash
# usage: tools/try_seeds.sh <prop> <pkgdir> <srcdir>   (srcdir/<n>/{patch.diff,demo_test.go,notes.txt})
# confirms each seeded change in a scratch worktree, runs the property's check on /repo with the patch applied,
# stores it under /verif/seeded/<prop>-<n>/ with meta.json
cd /verif
P=$1; PKG=$2; SRC=$3
WT=/tmp/wt_try_$P
git -C /repo worktree add --detach $WT HEAD -q
for d in $SRC/*/; do n=$(basename $d)
  conf=$(bin/confirm_seed $WT $PKG $d 2>&1 | tail -3 | tr '\n' ';')
  git -C /repo apply $d/patch.diff || { echo "seed $n: patch does not apply to /repo"; continue; }
  out=$(bin/check $P 2>&1); rc=$?
  git -C /repo apply -R $d/patch.diff
  det=$(echo "$out" | grep -E "failed obligation" | head -3 | sed 's/^ *failed obligation: //' | cut -c1-160 | tr '\n' '|')
  echo "seed $P-$n: rc=$rc confirm=[$conf] detected_by=[$det]"
  D=seeded/$P-$n; mkdir -p $D; cp $d/patch.diff $d/demo_test.go $d/notes.txt $D/
  python3 - "$P" "$D" "$rc" "$conf" "$det" <<'PY'
import json,sys
P,D,rc,conf,det=sys.argv[1:6]
json.dump({"property":P,"source":"independent sub-agent, given only the property text and a scratch worktree","needs_to_manifest":open(D+'/notes.txt').read(),
 "confirmed":"bin/confirm_seed: "+conf,"check_run":"git -C /repo apply patch.diff; bin/check %s; git -C /repo apply -R patch.diff"%P,
 "detected":rc!="0","detected_by":det},open(D+'/meta.json','w'),indent=1)
PY
done
git -C /repo worktree remove --force $WT
