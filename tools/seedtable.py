#!/usr/bin/env python3
"""prints the markdown table of seeded changes (from /verif/seeded/*/meta.json) for DESIGN.md §10"""
import json,glob,os,re
rows=[]
for d in sorted(glob.glob('/verif/seeded/*/')):
    m=json.load(open(d+'meta.json'))
    name=os.path.basename(d.rstrip('/'))
    notes=m.get('needs_to_manifest','')
    lines=[l.strip() for l in notes.splitlines() if l.strip() and not l.startswith('pkg:')]
    what=lines[0] if lines else ''
    what=re.sub(r'\s+',' ',what)[:150]
    by=re.sub(r'\s+',' ',m.get('detected_by',''))
    by=re.sub(r'\[unknown\].*?(\||$)','|',by).strip('| ')[:170]
    det='yes' if m.get('detected') else 'NO'
    if m.get('valid') is False: det='(invalid seed: existing tests fail with it)'
    rows.append('| %s | %s | %s | %s |'%(name,what.replace('|','/'),det,by.replace('|',' ; ')))
print('| seed | change (first line of the author\'s note) | detected | by (obligation) |\n|---|---|---|---|')
print('\n'.join(rows))
