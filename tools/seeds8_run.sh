#!/bin/bash
# usage: tools/seeds8_run.sh <prop> [<n>]   -- round 8: one seed per property in /tmp/seeds8/<prop>/1/{patch.diff,demo_test.go,notes.txt}
# confirms it in a scratch worktree (suite passes with it, demo fails with it, demo passes clean), runs the property's
# registered check on /repo with the patch applied, reverts, stores it as seeded/<prop>-<n>/ (default n=7).
cd /verif
P=$1; N=${2:-7}; d=/tmp/seeds8/$P/1
[ -f $d/patch.diff ] && [ -f $d/demo_test.go ] && [ -f $d/notes.txt ] || { echo "$P: incomplete"; exit 2; }
[ -z "$(git -C /repo status --porcelain)" ] || { echo "/repo not clean"; exit 2; }
PKG=$(head -1 $d/notes.txt | sed 's/^pkg: *//')
WT=/tmp/wt_try8_$P
git -C /repo worktree add --detach $WT HEAD -q
conf=$(bin/confirm_seed $WT $PKG $d 2>&1 | tail -3 | tr '\n' ';')
git -C /repo worktree remove --force $WT
git -C /repo apply $d/patch.diff || { echo "seed $P: patch does not apply to /repo"; exit 2; }
out=$(bin/check $P 2>&1); rc=$?
git -C /repo apply -R $d/patch.diff; git -C /repo checkout -- .
echo "$out" > /tmp/seeds8/$P/check.out
det=$(echo "$out" | grep -E "failed obligation" | head -3 | sed 's/^ *failed obligation: //' | cut -c1-160 | tr '\n' '|')
echo "seed $P-$N: rc=$rc confirm=[$conf] detected_by=[$det]"
D=seeded/$P-$N; mkdir -p $D; cp $d/patch.diff $d/demo_test.go $d/notes.txt $D/
python3 - "$P" "$D" "$rc" "$conf" "$det" <<'PY'
import json,sys
P,D,rc,conf,det=sys.argv[1:6]
json.dump({"property":P,"source":"independent sub-agent (round 8: one more change per property in a less obvious place), given only the property text and a scratch worktree","needs_to_manifest":open(D+'/notes.txt').read(),
 "confirmed":"bin/confirm_seed (private network namespace): "+conf,"check_run":"git -C /repo apply patch.diff; bin/check %s; git -C /repo apply -R patch.diff"%P,
 "detected":rc!="0","detected_by":det},open(D+'/meta.json','w'),indent=1)
PY
