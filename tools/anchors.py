#!/usr/bin/env python3
"""Regenerates the `//@   local name type#k` anchor lines in /repo/*/zz_verif_contracts.go from the current
source (run after writing or changing contracts). Anchors let a contract survive the renaming of a local
variable or parameter it mentions: an unknown name is resolved as the k-th named local of that type."""
import subprocess, re, glob, sys
out = subprocess.run(['/verif/bin/govc','-gen-anchors','-no-evidence'],capture_output=True,text=True).stdout
anch = {}
cur = None
for l in out.splitlines():
    if l.startswith('FUNC '):
        cur = l[5:]; anch[cur] = []
    elif l.startswith('local ') and cur:
        anch[cur].append(l)
for f in glob.glob('/repo/*/zz_verif_contracts.go'):
    pkg = re.search(r'^package (\w+)', open(f).read(), re.M).group(1)
    lines = [l for l in open(f).read().split('\n') if not l.startswith('//@   local ')]
    res = []
    i = 0
    while i < len(lines):
        l = lines[i]; res.append(l)
        m = re.match(r'//@ func (.+)$', l)
        if m:
            key = m.group(1).strip()
            if not re.match(r'^\w+\.', key) or key.startswith('('):
                key = pkg + '.' + key
            # keep the props line directly after func first
            if i + 1 < len(lines) and lines[i+1].startswith('//@   props'):
                i += 1; res.append(lines[i])
            for a in anch.get(key, []):
                res.append('//@   ' + a)
        i += 1
    open(f, 'w').write('\n'.join(res))
print('anchors written for', sum(1 for k in anch if anch[k]), 'functions')
