#!/bin/bash
# phase 2: run the property's check on /repo with each confirmed seed applied; store under /verif/seeded/<P>-<n+4>/
cd /verif
[ -z "$(git -C /repo status --porcelain)" ] || { echo "/repo dirty"; exit 2; }
for d in /tmp/seeds5/C*/; do id=$(basename $d); P=${id%-*}; n=${id#*-}; k=$((n+4))
  [ -f seeded/$P-$k/meta.json ] && [ -z "${REDO:-}" ] && continue
  conf=$(cat $d/confirm.txt 2>/dev/null | sed "s/^$id: //")
  git -C /repo apply $d/patch.diff || { echo "seed $id: patch does not apply to /repo"; continue; }
  out=$(bin/check $P 2>&1); rc=$?
  git -C /repo apply -R $d/patch.diff
  det=$(echo "$out" | grep -E "failed obligation" | head -3 | sed 's/^ *failed obligation: //' | cut -c1-160 | tr '\n' '|')
  echo "seed $P-$k ($id): rc=$rc detected_by=[$det]"
  D=seeded/$P-$k; mkdir -p $D; cp $d/patch.diff $d/demo_test.go $d/notes.txt $D/
  python3 - "$P" "$D" "$rc" "$conf" "$det" <<'PY'
import json,sys
P,D,rc,conf,det=sys.argv[1:6]
json.dump({"property":P,"source":"independent sub-agent (round 5: subtle changes in less obvious places), given only the property text and a scratch worktree","needs_to_manifest":open(D+'/notes.txt').read(),
 "confirmed":"bin/confirm_seed (private network namespace): "+conf,"check_run":"git -C /repo apply patch.diff; bin/check %s; git -C /repo apply -R patch.diff"%P,
 "detected":rc!="0","detected_by":det},open(D+'/meta.json','w'),indent=1)
PY
done
git -C /repo status --short
