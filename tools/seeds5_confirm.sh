#!/bin/bash
# phase 1: confirm every seed of /tmp/seeds5 in a scratch worktree (suite passes with patch, demo fails with patch, demo passes clean)
cd /verif
WT=/tmp/wt_confirm5
git -C /repo worktree add --detach $WT HEAD -q
for d in /tmp/seeds5/C*/; do id=$(basename $d)
  [ -f $d/patch.diff ] && [ -f $d/demo_test.go ] && [ -f $d/notes.txt ] || { echo "$id: incomplete"; continue; }
  pkg=$(head -1 $d/notes.txt | sed 's/^pkg: *//')
  conf=$(bin/confirm_seed $WT $pkg $d 2>&1 | tail -3 | tr '\n' ';')
  echo "$id: $conf" | tee $d/confirm.txt
done
git -C /repo worktree remove --force $WT
