#!/bin/bash
# usage: tools/robust.sh <prop> [n]   -- runs the property's proof under n name perturbations; prints unstable obligations
cd /verif
P=$1; N=${2:-6}
for i in $(seq 0 $((N-1))); do
  GOVC_PERTURB=$i bin/govc -prop $P -no-evidence 2>&1 | grep -E "failed obligation|engine error|no functions" | sed 's/ \[.*//' 
done | sort | uniq -c | sort -rn
echo "robust.sh $P: done ($N perturbations)"
