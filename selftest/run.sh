#!/bin/bash
# Self-test of the checks (not a registered check): every must-fail patch has to be reported by the check of
# its property, every must-pass patch (harmless refactoring) must leave it green. Patches are applied to
# /repo's working tree and reverted right after (git checkout of the touched files).
cd /verif
fail=0
[ -z "$(git -C /repo status --porcelain)" ] || { echo "/repo has uncommitted changes; commit or stash them first"; exit 2; }
run() { kind=$1; f=$2; prop=$(basename $f | cut -d- -f1)
  files=$(grep '^+++ b/' $f | sed 's#+++ b/##')
  git -C /repo apply /verif/$f || { echo "APPLY-FAILED $f"; fail=1; return; }
  out=$(bin/check $prop 2>&1); rc=$?
  git -C /repo apply -R /verif/$f || { echo "REVERT-FAILED $f"; exit 2; }
  if [ $kind = must-fail ] && [ $rc -eq 0 ]; then echo "MISSED   $f"; fail=1
  elif [ $kind = must-pass ] && [ $rc -ne 0 ]; then echo "FALSE-ALARM $f: $(echo "$out" | grep 'failed obligation' | head -2 | cut -c1-140)"; fail=1
  else echo "ok       $kind $(basename $f) $(echo "$out" | grep -c 'failed obligation')"; fi
}
for f in selftest/must-fail/${1:-}*.diff; do [ -e "$f" ] && run must-fail $f; done
for f in selftest/must-pass/${1:-}*.diff; do [ -e "$f" ] && run must-pass $f; done
exit $fail
